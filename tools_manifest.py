#!/venv/bin/python
"""Regenerates MANIFEST.json from the property modules that exist (props/cNN.py with MANIFEST dict)."""
import importlib
import json
import os
import sys

ROOT = os.path.dirname(os.path.abspath(__file__))
sys.path.insert(0, ROOT)

ids = [json.loads(l)['id'] for l in open(os.path.join(ROOT, 'properties.jsonl'))]
checks = []
na = []
engines = {}
for pid in ids:
    p = os.path.join(ROOT, 'props', pid.lower() + '.py')
    if not os.path.exists(p):
        na.append({'property_id': pid, 'reason': 'check not built yet in this round (planned, see DESIGN.md section 4)'})
        continue
    mod = importlib.import_module('props.' + pid.lower())
    m = getattr(mod, 'MANIFEST', {})
    checks.append({
        'property_id': pid,
        'quick_cmd': f'./check {pid} --tier quick',
        'thorough_cmd': f'./check {pid} --tier thorough',
        'evidence_file': f'/verif/evidence/{pid}.json',
        'replay_cmd_template': f'./check {pid} --replay {{path}}',
        'engine': mod.ENGINE,
        'level_claimed': {
            'category': 'model_checking',
            'text': m.get('text', mod.__doc__.strip().split('\n\n')[0]),
            'design_ref': m.get('design_ref', f'DESIGN.md section 4, {pid}'),
        },
        'level_note': m.get('note', ' '.join(getattr(mod, 'ASSUMPTIONS', [])) or 'bounded exhaustive exploration; trusted base: CPython, the reference model in the check'),
        'technique': m.get('technique', mod.ENGINE),
    })
    for e in m.get('engines', []):
        engines.setdefault(e, []).append(pid)
man = {
    'version': 1,
    'setup_cmd': 'mkdir -p /verif/.work /verif/evidence /verif/replays && /venv/bin/python -m compileall -q /verif/vf /verif/props >/dev/null; ./selftest/run.sh',
    'hooks': {
        'guard': 'OMBOTT_VERIF',
        'enable': 'no source hooks are needed: every observation point is reachable from outside (wsgi.input, start_response, sys.settrace, module-attribute injection); ./check exports OMBOTT_VERIF=1 for completeness',
        'baseline_off_cmd': 'cd /repo && env -u OMBOTT_VERIF /venv/bin/python -m pytest -ra -q -p no:cacheprovider --timeout=900 --continue-on-collection-errors',
        'source_commits': [],
        'add_only': True,
    },
    'engines': [
        {'name': 'E-HIST', 'path': 'vf/hist.py', 'serves_properties': engines.get('E-HIST', []), 'kind_free_text': 'explicit-state BFS over operation histories on the real objects, canonical-state deduplication'},
        {'name': 'E-ENV', 'path': 'vf/env.py', 'serves_properties': engines.get('E-ENV', []), 'kind_free_text': 'environment-choice explorer (every read(n) answer), state merging, deviation bounding'},
        {'name': 'E-SCHED', 'path': 'vf/sched.py', 'serves_properties': engines.get('E-SCHED', []), 'kind_free_text': 'controlled thread scheduler (sys.settrace line events + baton), iterative preemption bounding'},
        {'name': 'E-ENUM', 'path': 'vf/core.py', 'serves_properties': engines.get('E-ENUM', []), 'kind_free_text': 'bounded-exhaustive enumeration of inputs/programs against an independent reference model'},
    ],
    'checks': checks,
    'not_applicable': na,
    'notes': 'All checks explore the real ombott code imported from /repo (override: OMBOTT_SRC). Exit 0 = held; exit 1 + VIOLATION line = violation; exit 2 = internal error of the machinery (never a verdict). known_findings.json lists recorded/fixed defects.',
}
with open(os.path.join(ROOT, 'MANIFEST.json'), 'w') as f:
    json.dump(man, f, indent=1)
    f.write('\n')
print(f'{len(checks)} checks, {len(na)} not claimed')
