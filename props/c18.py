"""C18 — query strings and urlencoded forms decode to exactly what was sent.

Engine: E-ENUM.  (a) round trip: every list of <= 3 (key, value) pairs over an adversarial universe is encoded by an
independent encoder (four spelling flavours) and observed at Request.query, Request.forms (urlencoded body) and
Request.params; the result must equal the dict-of-lists model.  (b) totality and agreement: every string over a
7-symbol alphabet up to length 8 (thorough 9) is parsed through Request.query; it must terminate without raising and,
where no pair has an empty key, equal an independent split-and-unquote decoder.
"""
import io
import itertools

from vf import core, sut, wsgi

ID = 'C18'
TITLE = 'Query strings and urlencoded forms decode to exactly what was sent'
ENGINE = 'E-ENUM (bounded-exhaustive pair lists and raw strings vs an independent codec)'
RULE = ('states = distinct inputs (pair list x flavour, or raw string); transitions = evaluations of the real parser '
        '(query / forms / params); non-trivial = inputs with a repeated key, an escape, a "+" or a separator inside a '
        'key or value')
ASSUMPTIONS = ['keys are non-empty (pairs with an empty key are only checked for totality)',
               'percent-escapes that are not valid UTF-8 decode with U+FFFD replacement, as urllib does']
MANIFEST = {
    'engines': ['E-ENUM'],
    'technique': 'bounded-exhaustive enumeration of key/value lists (round trip through an independent encoder) and of '
                 'all raw strings over a separator alphabet (totality + agreement with a reference decoder)',
    'text': 'All lists of up to three pairs over 11 keys x 12 values (separators, escapes, spaces, non-ASCII), in four '
            'encoder flavours, and all raw strings over {a,=,&,+,%,4,b} up to the length bound are parsed by the real '
            'code at Request.query / forms / params and compared with the reference model. Forms are observed through seven deliveries (plain, after a complete / partial read of request.body, one-byte and half-body short reads of wsgi.input, chunked transfer encoding in one chunk / 3-byte chunks).',
    'note': 'Bounds: <=3 pairs (quick: all 2-lists, 3-lists over a 5x5 core); raw strings <= 7 (quick) / 9 (thorough). '
            'Trusted: CPython utf-8 decoder, the reference codec in this file.',
}

# 'Ã©' / 'Â£10': text whose code points, read as bytes, are well-formed UTF-8 (what a double decoding would turn into 'é' / '£10')
KEYS = ['a', 'b', ' ', '&', '=', '+', '%', '%41', 'ü', '日本', 'a b=c&d', 'Ã©']
VALUES = ['', 'a', 'b', ' ', '&', '=', '+', '%', '%41', 'ü', '日本', 'a b=c&d', 'Â£10']
CORE_K = ['a', 'b', '&', '%41', 'ü']
CORE_V = ['', 'a', '=', '+', '日本']
ALPHA = 'a=&+%4b'
UNRESERVED = set('ABCDEFGHIJKLMNOPQRSTUVWXYZabcdefghijklmnopqrstuvwxyz0123456789_.-~')


# ---- independent codec -----------------------------------------------------------------------------------------

def enc(s, flavour):
    out = []
    for ch in s:
        if ch == ' ' and flavour in (0, 2):
            out.append('+')
        elif ch in UNRESERVED and not (flavour == 3 and ch in 'ab'):
            out.append(ch)
        else:
            for b in ch.encode('utf8'):
                out.append(('%%%02X' if flavour in (0, 1) else '%%%02x') % b)
    return ''.join(out)


def encode_pairs(pairs, flavour):
    return '&'.join(enc(k, flavour) + '=' + enc(v, flavour) for k, v in pairs)


HEX = '0123456789abcdefABCDEF'


def ref_unquote(s):
    s = s.replace('+', ' ')
    out = bytearray()
    i = 0
    while i < len(s):
        ch = s[i]
        if ch == '%' and i + 2 < len(s) + 0 and len(s) - i >= 3 and s[i + 1] in HEX and s[i + 2] in HEX:
            out.append(int(s[i + 1:i + 3], 16))
            i += 3
        else:
            out += ch.encode('utf8')
            i += 1
    return out.decode('utf8', 'replace')


def ref_decode(qs):
    """-> (dict, has_empty_key)"""
    d = {}
    empty = False
    if not qs:
        return d, False
    for piece in qs.split('&'):
        if not piece:
            continue        # '&&' / leading / trailing separators carry no pair
        k, eq, v = piece.partition('=')
        if not k:
            empty = True
            continue
        k, v = ref_unquote(k), ref_unquote(v)
        if k in d:
            if isinstance(d[k], list):
                d[k].append(v)
            else:
                d[k] = [d[k], v]
        else:
            d[k] = v
    return d, empty


def model(pairs):
    d = {}
    for k, v in pairs:
        if k in d:
            if isinstance(d[k], list):
                d[k].append(v)
            else:
                d[k] = [d[k], v]
        else:
            d[k] = v
    return d


# ---- shards ----------------------------------------------------------------------------------------------------

def shards(tier, seed):
    out = []
    allpairs = [(k, v) for k in KEYS for v in VALUES]
    if tier == 'quick':
        out.append(('pairs', 'all', None, 0))
        for i in range(0, len(allpairs), 4):
            out.append(('pairs', 'all', (i, min(i + 4, len(allpairs))), 2))
        core_pairs = len(CORE_K) * len(CORE_V)
        for i in range(core_pairs):
            out.append(('pairs', 'core', i, 3))
        n = 7
    else:
        for i in range(len(allpairs)):
            out.append(('pairs', 'all', i, 3))
        n = 9
    for p in itertools.product(ALPHA, repeat=2):
        out.append(('raw', ''.join(p), n))
    out.append(('raw', '', 1))
    for first in range(len(HIST_MENU)):
        out.append(('hist', 2, first))
        if tier == 'thorough' and first < 8:
            out.append(('hist', 3, first))
    for first in range(len(APP_MENU)):
        out.append(('appseq', 3, first))
    # seed extension: one more alphabet symbol in the raw strings, enumerated exhaustively up to length 5
    out.append(('rawx', ';/?#:@!$,\'"'[seed % 11], 5))
    return out


def bounds(tier, seed):
    return {'keys': KEYS, 'values': VALUES, 'pair_lists': '<=2 over all pairs + 3 over the core' if tier == 'quick' else '<=3 over all pairs',
            'raw_alphabet': ALPHA, 'raw_length': 7 if tier == 'quick' else 9, 'flavours': 4}


FLOORS = {'app_sequence_requests': 500, 'forms_other_delivery': 1000, 'hist_sequences': 600, 'repeated_key': 100, 'forms_checked': 1000, 'params_checked': 1000, 'raw_agree': 100000, 'raw_empty_key': 1000}


def _request():
    sut.load()
    return sut.sub('request_pkg.request').Request


def _plain(d):
    return {k: (list(v) if isinstance(v, list) else v) for k, v in d.items()}


def observe_query(Request, qs):
    return _plain(Request({'QUERY_STRING': qs}).query)


FORM_CTYPES = ['application/x-www-form-urlencoded', 'application/x-www-form-urlencoded; charset=UTF-8',
               'APPLICATION/X-WWW-FORM-URLENCODED', 'application/x-www-form-urlencoded;charset=utf-8', None]
_ct_rot = [0]


class ShortStream:
    """wsgi.input that answers every read(n) with at most `k` bytes (legal file semantics)"""

    def __init__(self, data, k):
        self.src = io.BytesIO(data)
        self.k = k

    def read(self, n=-1):
        return self.src.read(self.k if n is None or n < 0 else min(n, self.k))

    def readline(self, n=-1):
        return self.src.readline(self.k if n is None or n < 0 else min(n, self.k))


DELIVERIES = ['bytesio-offset', 'plain', 'body-read-first', 'body-sniffed-first', 'one-byte-reads', 'half-reads', 'chunked', 'chunked-3', 'chunked-upper', 'chunked-emptycl', 'chunked-withcl', 'chunked-smallcl', 'retarget-chunked']


def observe_forms(Request, body_text, qs='', ctype='rotate', delivery='plain'):
    body = body_text.encode('latin1')
    if ctype == 'rotate':        # every spelling of the urlencoded content type (and none at all) is used in turn
        _ct_rot[0] = (_ct_rot[0] + 1) % len(FORM_CTYPES)
        ctype = FORM_CTYPES[_ct_rot[0]]
    env = {'QUERY_STRING': qs, 'CONTENT_LENGTH': str(len(body)), 'wsgi.input': io.BytesIO(body), 'REQUEST_METHOD': 'POST'}
    if ctype is not None:
        env['CONTENT_TYPE'] = ctype
    if delivery in ('chunked', 'chunked-3', 'chunked-upper', 'chunked-emptycl', 'chunked-withcl', 'chunked-smallcl'):
        # Transfer-Encoding: chunked, no Content-Length (one chunk / chunks of three bytes / chunks of 11 bytes with the sizes in
        # upper-case hex and zero-padded)
        step = max(1, len(body)) if delivery == 'chunked' else (3 if delivery == 'chunked-3' else 11)
        fmt = b'0%X\r\n%s\r\n' if delivery == 'chunked-upper' else b'%x\r\n%s\r\n'
        raw = b''.join(fmt % (len(body[i:i + step]), body[i:i + step]) for i in range(0, len(body), step)) + b'0\r\n\r\n'
        del env['CONTENT_LENGTH']
        if delivery == 'chunked-emptycl':
            env['CONTENT_LENGTH'] = ''        # (PEP 3333: the variable may be empty or absent)
        if delivery == 'chunked-withcl':
            env['CONTENT_LENGTH'] = str(len(raw))      # both indications: the transfer coding decides
        if delivery == 'chunked-smallcl':
            env['CONTENT_LENGTH'] = str(max(1, len(body) // 2))      # ... also when the Content-Length is smaller than the form (RFC 7230 3.3.3)
        env['HTTP_TRANSFER_ENCODING'] = 'chunked'
        env['wsgi.input'] = io.BytesIO(raw)
    if delivery == 'bytesio-offset':
        # the server buffered the connection in one BytesIO: earlier bytes lie before the body, the stream stands at the body's start
        before = b'POST /form HTTP/1.1\r\nHost: h\r\n\r\nuser=alice&note=of-the-previous-request'
        env['wsgi.input'] = io.BytesIO(before + body + b'&tail=of-the-next-request')
        env['wsgi.input'].seek(len(before))
    if delivery == 'one-byte-reads':
        env['wsgi.input'] = ShortStream(body, 1)
    elif delivery == 'half-reads':
        env['wsgi.input'] = ShortStream(body, max(1, (len(body) + 1) // 2))
    r = Request(env)
    if delivery == 'retarget-chunked':
        # the request object first served a plain form; then it (a copy of it) is pointed at a chunked form through request[...]
        r0 = Request({'QUERY_STRING': qs, 'CONTENT_LENGTH': '3', 'wsgi.input': io.BytesIO(b'o=1'), 'REQUEST_METHOD': 'POST', 'CONTENT_TYPE': 'application/x-www-form-urlencoded'})
        if _plain(r0.forms) != {'o': '1'}:
            raise AssertionError('the plain form o=1 was not read')
        r = r0.copy()
        raw = b''.join(b'%x\r\n%s\r\n' % (len(body[i:i + 11]), body[i:i + 11]) for i in range(0, len(body), 11)) + b'0\r\n\r\n'
        r['HTTP_TRANSFER_ENCODING'] = 'chunked'
        r['wsgi.input'] = io.BytesIO(raw)
        if ctype is not None:
            r['CONTENT_TYPE'] = ctype
    if delivery == 'body-read-first':          # the handler looks at the raw body before it asks for the form
        if r.body.read() != body:
            raise AssertionError('raw body differs from what was sent')
    elif delivery == 'body-sniffed-first':
        r.body.read(3)
    forms, params = _plain(r.forms), _plain(r.params)
    # reading the merged view changes neither of its sources; a copy of the request decodes to the same form
    q_after = _plain(r.query)
    if q_after != ref_decode(qs)[0]:
        raise AssertionError(f'request.query reads {q_after!r} after request.params was read (query string {qs!r})')
    if _plain(r.forms) != forms:
        raise AssertionError(f'request.forms reads {_plain(r.forms)!r} after request.params was read, {forms!r} before')
    cp = r.copy()
    if _plain(cp.forms) != forms or _plain(cp.query) != q_after:
        raise AssertionError(f'request.copy() decodes to forms {_plain(cp.forms)!r} / query {_plain(cp.query)!r}; the request itself to {forms!r} / {q_after!r}')
    return forms, params


def check_pairs(res, Request, pairs, flavours, with_forms):
    exp = model(pairs)
    c = res['counters']
    nontriv = len(exp) < len(pairs)
    if nontriv:
        c['repeated_key'] += 1
    for fl in flavours:
        qs = encode_pairs(pairs, fl)
        res['states'] += 1
        res['transitions'] += 1
        core.track(res, {'kind': 'pairs', 'pairs': [list(p) for p in pairs], 'flavour': fl, 'at': 'query'})
        try:
            got = observe_query(Request, qs)
        except Exception as e:   # noqa
            got = f'raised {type(e).__name__}: {e}'
        if got != exp:
            core.add_violation(res, {'kind': 'pairs', 'pairs': [list(p) for p in pairs], 'flavour': fl, 'at': 'query'},
                               f'query {qs!r} -> {got!r}, expected {exp!r}', sig='roundtrip:query')
        if with_forms:
            ct = FORM_CTYPES[(len(qs) + fl) % len(FORM_CTYPES)]
            # every way of delivery for lists of <= 2 pairs, one (rotating) for longer lists
            for dl in (DELIVERIES if len(pairs) < 3 else [DELIVERIES[(len(qs) + fl) % len(DELIVERIES)]]):
                try:
                    gf, gp = observe_forms(Request, qs, qs='z=1&a=q', ctype=ct, delivery=dl)
                except Exception as e:   # noqa
                    gf = gp = f'raised {type(e).__name__}: {e}'
                res['transitions'] += 2
                c['forms_checked'] += 1
                c['params_checked'] += 1
                if dl != 'plain':
                    c['forms_other_delivery'] += 1
                if gf != exp:
                    core.add_violation(res, {'kind': 'pairs', 'pairs': [list(p) for p in pairs], 'flavour': fl, 'at': 'forms', 'ctype': ct, 'delivery': dl},
                                       f'forms body {qs!r} (Content-Type {ct!r}, {dl}) -> {gf!r}, expected {exp!r}', sig='roundtrip:forms')
                expp = {'z': '1', 'a': 'q'}
                expp.update(exp)
                if gp != expp:
                    core.add_violation(res, {'kind': 'pairs', 'pairs': [list(p) for p in pairs], 'flavour': fl, 'at': 'params', 'ctype': ct, 'delivery': dl},
                                       f'params (query z=1&a=q, body {qs!r}, Content-Type {ct!r}, {dl}) -> {gp!r}, expected {expp!r}', sig='roundtrip:params')
    res['execs'] += len(flavours)
    if nontriv or any(ch in '&=+% ' or ord(ch) > 127 for k, v in pairs for ch in k + v):
        res['nontrivial'] += len(flavours)


HIST_MENU = ['a=1', 'a=1&a=2', 'a=1&a=2&a=3', 'b=1&a=2', 'a=', 'a', 'b=x&b=y', 'a=1&b=2&a=3', '%61=9', 'a=1&&a=2', 'c=1',
             'a+b=1&a+b=2', 'a%20b=3', '=1&a=2', 'a=%zz&a=+']


def hist_sequences(depth, first):
    menu = HIST_MENU if depth == 2 else HIST_MENU[:8]
    return ((menu[first],) + rest for rest in itertools.product(menu, repeat=depth - 1))


def _fresh_request():
    sut.load(fresh=True)      # module-level state of ombott is rebuilt: every sequence starts from a clean process state
    return sut.sub('request_pkg.request').Request


def hist_step(Request, q, use_forms, mutate):
    """one parse; when `mutate`, the handler then edits what it got (its own request's dict and lists) in place"""
    try:
        if use_forms:
            body = q.encode('latin1')
            r = Request({'QUERY_STRING': '', 'CONTENT_TYPE': FORM_CTYPES[0], 'CONTENT_LENGTH': str(len(body)),
                         'wsgi.input': io.BytesIO(body), 'REQUEST_METHOD': 'POST'})
            d = r.forms
        else:
            # the query string is put in place through the item interface of a Request that has already parsed another one
            r = Request({'QUERY_STRING': 'token=s3cr3t&a=old', 'wsgi.input': io.BytesIO(b''), 'CONTENT_LENGTH': '0', 'REQUEST_METHOD': 'GET'})
            r.query
            r.params
            r['QUERY_STRING'] = q
            d = r.query
            if _plain(r.params) != _plain(d):
                return f'params {_plain(r.params)!r} differ from query {_plain(d)!r} after the query string was replaced'
        got = _plain(d)
        if mutate:
            for k, v in list(d.items()):
                if isinstance(v, list):
                    v.append('EDITED')
                    v.sort()
            d['INJECTED'] = 'x'
            d.pop('a', None)
        return got
    except Exception as e:   # noqa
        return f'raised {type(e).__name__}: {e}'


def work_hist(spec, res, Request):
    """Parsing must depend on its own input only: every sequence of parses (alternating query / forms) from the menu,
    the last one compared with the reference decoder."""
    _, depth, first = spec
    c = res['counters']
    for seq in hist_sequences(depth, first):
        for mode in ('query', 'forms', 'mixed'):
            Request = _fresh_request()
            got = None
            for i, q in enumerate(seq):
                use_forms = mode == 'forms' or (mode == 'mixed' and i % 2 == 0)
                got = hist_step(Request, q, use_forms, i < len(seq) - 1)
            res['states'] += 1
            res['transitions'] += depth
            c['hist_sequences'] += 1
            exp, empty = ref_decode(seq[-1])
            if empty:
                continue
            res['nontrivial'] += 1
            if got != exp:
                core.add_violation(res, {'kind': 'hist', 'seq': list(seq), 'mode': mode},
                                   f'after parsing {list(seq[:-1])!r} ({mode}), {seq[-1]!r} parses as {got!r}, expected {exp!r}',
                                   sig='history-dependent')
    res['execs'] = res['states']
    res['outcomes'].add('history-independent')
    core.add_sample(res, {'history_menu': HIST_MENU, 'depth': depth})
    return res


# ---- sequences of requests on one application (one thread): every handler, also one that looks at its request only while its answer is
# being streamed, gets the pairs of its own request
APP_MENU = [('plain', 'who=first&n=1', None), ('plain', 'who=second&k=a&k=b', None), ('stream', 'who=third&n=%C3%BC', None),
            ('stream', 'who=fourth', 'f=1&f=2&g=%E6%97%A5'), ('stream', '', 'who=fifth'), ('plain', '', None), ('stream', 'a=1&&a=2', None)]


def appseq_once(om, seq):
    app = om.Ombott()

    def look():
        rq = app.request
        return repr((_plain(rq.query), _plain(rq.forms), _plain(rq.params))).encode()

    def plain():
        return look()

    def stream():
        yield b'>'
        yield look()            # (the server is already iterating the answer when the request is looked at)
    app.route('/plain', ['GET', 'POST'], plain)
    app.route('/stream', ['GET', 'POST'], stream)
    for k, i in enumerate(seq):
        route, qs, body = APP_MENU[i]
        if body is None:
            env = wsgi.environ('GET', '/' + route, qs=qs)
        else:
            env = wsgi.environ('POST', '/' + route, qs=qs, body=body.encode('latin1'), ctype=FORM_CTYPES[0])
        c = wsgi.call(app, env)
        q, _ = ref_decode(qs)
        f, _ = ref_decode(body or '')
        prm = dict(q)
        for kk, vv in f.items():
            if kk in prm:
                prm[kk] = (prm[kk] if isinstance(prm[kk], list) else [prm[kk]]) + (vv if isinstance(vv, list) else [vv])
            else:
                prm[kk] = vv
        exp = (b'>' if route == 'stream' else b'') + repr((q, f, prm)).encode()
        if c.code != 200 or c.body != exp:
            return (f'request #{k + 1} ({"GET" if body is None else "POST"} /{route}?{qs}{"" if body is None else " with the form " + repr(body)}) is answered {c.status} {c.body[:200]!r}; '
                    f'(query, forms, params) of this request are {exp[1 if route == "stream" else 0:]!r}')
    return None


def work_appseq(spec, res):
    _, depth, first = spec
    om = sut.load()
    c = res['counters']
    for rest in itertools.product(range(len(APP_MENU)), repeat=depth - 1):
        seq = (first,) + rest
        res['states'] += 1
        res['transitions'] += depth
        c['app_sequence_requests'] += depth
        res['nontrivial'] += 1
        bad = appseq_once(om, seq)
        res['outcomes'].add('application sequence ' + ('ok' if bad is None else 'DIFF'))
        if bad:
            core.add_violation(res, {'kind': 'appseq', 'seq': list(seq)}, f'sequence {[APP_MENU[i][:2] for i in seq]}: {bad}', sig='appseq')
    res['execs'] = res['transitions']
    core.add_sample(res, {'application_sequences_from': list(APP_MENU[first]), 'depth': depth})
    return res


def work(spec):
    res = core.new_result()
    if spec[0] == 'appseq':
        return work_appseq(spec, res)
    Request = _request()
    kind = spec[0]
    if kind == 'hist':
        return work_hist(spec, res, Request)
    if kind == 'pairs':
        _, uni, first, n = spec
        if uni == 'all':
            universe = [(k, v) for k in KEYS for v in VALUES]
        else:
            universe = [(k, v) for k in CORE_K for v in CORE_V]
        if first is None:
            lists = itertools.chain.from_iterable(itertools.product(universe, repeat=m) for m in range(0, n + 1))
            fls = (0, 1, 2, 3)
        else:
            firsts = [universe[j] for j in range(*first)] if isinstance(first, tuple) else [universe[first]]
            lists = ((f0,) + rest for f0 in firsts for m in range(0, n) for rest in itertools.product(universe, repeat=m))
            fls = None
        for i, pairs in enumerate(lists):
            f = fls if fls is not None else ((0, 1, 2, 3) if len(pairs) < 3 else (i % 4,))
            check_pairs(res, Request, pairs, f, with_forms=len(pairs) < 3 or i % 7 == 0)
            if i < 2:
                core.add_sample(res, {'pairs': [list(p) for p in pairs], 'encoded': encode_pairs(pairs, f[0])})
        res['outcomes'].add('roundtrip')
        return res
    if kind == 'raw':
        _, prefix, n = spec
        alpha = ALPHA
    else:
        _, extra, n = spec
        prefix = ''
        alpha = ALPHA + extra
    c = res['counters']
    for m in range(0, n - len(prefix) + 1):
        for tail in itertools.product(alpha, repeat=m):
            s = prefix + ''.join(tail)
            if kind == 'rawx' and extra not in s:
                continue
            res['states'] += 1
            res['transitions'] += 1
            core.track(res, {'kind': 'raw', 's': s})
            try:
                got = observe_query(Request, s)
            except Exception as e:   # noqa
                core.add_violation(res, {'kind': 'raw', 's': s}, f'parsing {s!r} raised {type(e).__name__}: {e}',
                                   sig=f'totality:{type(e).__name__}')
                continue
            exp, empty = ref_decode(s)
            if empty:
                c['raw_empty_key'] += 1
                res['outcomes'].add('empty-key (totality only)')
                continue
            c['raw_agree'] += 1
            if got != exp:
                core.add_violation(res, {'kind': 'raw', 's': s}, f'query {s!r} -> {got!r}, reference {exp!r}',
                                   sig='raw:disagree')
            elif len(s) <= 5 and m == n - len(prefix):
                pass
            if ('%' in s or '+' in s or '&' in s) and exp:
                res['nontrivial'] += 1
            if len(s) == 6 and s.startswith(prefix) and res['transitions'] % 5000 == 0:
                core.add_sample(res, {'raw': s, 'parsed': exp})
            # forms/params on the shorter strings
            if len(s) <= 5:
                try:
                    gf, gp = observe_forms(Request, s)
                except Exception as e:   # noqa
                    core.add_violation(res, {'kind': 'raw', 's': s, 'at': 'forms'},
                                       f'forms of {s!r} raised {type(e).__name__}: {e}', sig=f'totality-forms:{type(e).__name__}')
                    continue
                res['transitions'] += 2
                c['forms_checked'] += 1
                c['params_checked'] += 1
                if gf != exp or gp != exp:
                    core.add_violation(res, {'kind': 'raw', 's': s, 'at': 'forms'},
                                       f'forms/params of body {s!r} -> {gf!r}/{gp!r}, reference {exp!r}', sig='raw:forms-disagree')
    res['execs'] = res['states']
    res['outcomes'].add('agree')
    if not res['samples']:
        core.add_sample(res, {'raw_prefix': prefix, 'max_len': n, 'strings': res['states']})
    return res


def replay(case):
    if case['kind'] == 'appseq':
        bad = appseq_once(sut.load(), case['seq'])
        if bad is None:
            return None
        return (f'one application serves {[("GET" if APP_MENU[i][2] is None else "POST") + " /" + APP_MENU[i][0] + "?" + APP_MENU[i][1] for i in case["seq"]]} one after the other on one thread '
                f'(/stream looks at request.query / forms / params after its first chunk): {bad}')
    Request = _request()
    if case['kind'] == 'hist':
        Request = _fresh_request()
        got = None
        for i, q in enumerate(case['seq']):
            use_forms = case['mode'] == 'forms' or (case['mode'] == 'mixed' and i % 2 == 0)
            got = hist_step(Request, q, use_forms, i < len(case['seq']) - 1)
        exp, _ = ref_decode(case['seq'][-1])
        if got == exp:
            return None
        return (f'parsing the strings {case["seq"]!r} one after the other in one process ({case["mode"]}; each handler edits the dict it got in place; a query string is put in place with request["QUERY_STRING"] = ... on a Request that has already parsed another one): the last one gives '
                f'{got!r}, alone it must give {exp!r}')
    if case['kind'] == 'pairs':
        pairs = [tuple(p) for p in case['pairs']]
        exp = model(pairs)
        qs = encode_pairs(pairs, case['flavour'])
        try:
            if case['at'] == 'query':
                got = observe_query(Request, qs)
            else:
                gf, gp = observe_forms(Request, qs, qs='z=1&a=q', ctype=case.get('ctype', FORM_CTYPES[0]), delivery=case.get('delivery', 'plain'))
                if case['at'] == 'forms':
                    got = gf
                else:
                    got = gp
                    e2 = {'z': '1', 'a': 'q'}
                    e2.update(exp)
                    exp = e2
        except Exception as e:   # noqa
            got = f'raised {type(e).__name__}: {e}'
        how = {'body-read-first': ' after the handler has read request.body completely', 'body-sniffed-first': ' after the handler has read 3 bytes of request.body',
               'bytesio-offset': ' (wsgi.input is a BytesIO of the whole connection, positioned at the start of the body)',
               'chunked-upper': ' (sent with Transfer-Encoding: chunked, 11-byte chunks, sizes in upper-case hex)',
               'chunked-emptycl': ' (sent with Transfer-Encoding: chunked in 11-byte chunks, the environ has CONTENT_LENGTH = "")',
               'retarget-chunked': ' (a copy of a request that served the plain form o=1 is pointed at this form, sent chunked, through request[...] = ...)',
               'chunked-smallcl': ' (sent with Transfer-Encoding: chunked in 11-byte chunks AND a Content-Length header of half the length of the form: the transfer coding decides, RFC 7230 3.3.3)',
               'chunked-withcl': ' (sent with Transfer-Encoding: chunked in 11-byte chunks AND a Content-Length header giving the length of the encoded stream)',
               'chunked': ' (sent with Transfer-Encoding: chunked, one chunk)', 'chunked-3': ' (sent with Transfer-Encoding: chunked, chunks of 3 bytes)',
               'one-byte-reads': ' (wsgi.input answers every read with one byte)', 'half-reads': ' (wsgi.input answers every read with at most half of the body)'}.get(case.get('delivery'), '')
        return None if got == exp else f'pairs {pairs!r} encoded as {qs!r}: Request.{case["at"]}{how} gives {got!r}, expected {exp!r}'
    s = case['s']
    exp, empty = ref_decode(s)
    try:
        if case.get('at') == 'forms':
            gf, gp = observe_forms(Request, s)
            got = gf if gf != exp else gp
        else:
            got = observe_query(Request, s)
    except Exception as e:   # noqa
        return f'parsing {s!r} raised {type(e).__name__}: {e}'
    if empty or got == exp:
        return None
    return f'{s!r} parsed as {got!r}, reference decoder gives {exp!r}'

MANIFEST['text'] += ' Deliveries also include chunked bodies with an empty or a present Content-Length; request sequences through one application (a streaming handler looks at its request late) are a layer of their own.'
MANIFEST['text'] += ' Chunked forms that also carry a smaller Content-Length, and text whose code points read as bytes are UTF-8, are part of the universe.'
