"""C04 — Content-Length bodies arrive byte-exact under any read fragmentation.

Engine: E-ENV.  The harness owns wsgi.input; every read(k) of the real ombott code is a choice point whose legal
answers are 1..min(k, available) bytes (b'' only at end of data).  All answer sequences are explored, with state
merging (stream position + locals of every live ombott frame); a second pass without merging explores every
execution with <= 2 short reads (deviation bounding) as a cross-check of the merging.
Oracle per execution: Request.body.read() == data[:Content-Length]; a second access gives the same bytes;
environ['wsgi.input'] was replaced by the buffered copy holding the same bytes; every read request is
<= Content-Length - bytes already delivered (the stream is never asked beyond Content-Length).
Second layer: the same through Ombott.__call__ with a handler returning request.body.read().
"""
import io
import itertools

from vf import core, sut, wsgi
from vf.env import EnvExplorer, ChoiceStream, Horizon, body_kind

ID = 'C04'
TITLE = 'Content-Length bodies arrive byte-exact under any read fragmentation'
ENGINE = 'E-ENV (environment-choice exploration of every read(n) answer, state merging + deviation bounding)'
RULE = ('executions = complete runs of Request.body on the real code, one per explored sequence of read answers; '
        'states = distinct merged (stream position, ombott frame locals) keys at read points; non-trivial = '
        'executions with at least one short read')
ASSUMPTIONS = [
    'the stream answers read(k) with 1..min(k, available) bytes and b"" only at end of data; it never raises',
    'a missing CONTENT_LENGTH means an empty body (documented by Request.content_length)',
    'state merging assumes the future of an execution is determined by the stream position and the locals of the '
    'live ombott frames (cross-checked by the unmerged deviation-bounded pass)',
]
MANIFEST = {
    'engines': ['E-ENV'],
    'technique': 'exhaustive exploration of all read-answer sequences of wsgi.input on the real body reader '
                 '(state merging; unmerged pass bounded to <=2 short reads), oracle = byte-exact prefix + no over-read',
    'text': 'For every body length, Content-Length (absent, below, equal, above the data), and buffer size in the '
            'stated ranges, every sequence of answers the input stream may give to the reads issued by the real code '
            'is explored; each complete execution is compared with the exact expected prefix and each read request is '
            'checked against the remaining Content-Length. Exhaustive within those ranges. Through WSGI the body is also reached through request.copy(), after a one-byte peek, lazily from a returned generator, and not at all.',
    'note': 'Bounds: body length <= 10 (quick) / 14 (thorough), thresholds 1..8 / 1..15; stream never raises. Trusted: '
            'CPython, the frame-local canonicaliser used for merging (cross-checked without merging at <=2 deviations).',
}


MP_BODIES = [b'--b\r\nA: b\r\n\r\nv\r\n--b--\r\n', b'--b\r\nA: b\r\n\r\n\r\n--b\r\nC: d\r\n\r\nw\r\n--b--\r\nepilogue']
MP_CTYPE = 'multipart/form-data; boundary=b'


def data_of(n):
    if n < 0:       # multipart family: body -n-1 followed by bytes of a pipelined next request
        return MP_BODIES[-n - 1] + b'NEXT'
    return bytes(range(1, n + 1))


def cls_for(n):
    if n < 0:
        L = len(MP_BODIES[-n - 1])
        return [L - 3, L - 2, L, L + 2]
    return [None] + list(range(0, n + 3))


def configs(tier, seed):
    out = []
    if tier == 'quick':
        ns = range(0, 9)
        ms = [1, 2, 3, 5, 8]
    else:
        ns = range(0, 15)
        ms = list(range(1, 16))
    for n in ns:
        for M in ms:
            out.append(('comp', n, M, True, None))
    # unmerged, deviation bound 2
    for n in ([4, 7] if tier == 'quick' else [3, 6, 9, 10]):
        for M in ([3, 8] if tier == 'quick' else [2, 3, 5, 8, 11]):
            out.append(('comp', n, M, False, 2))
    for n in (range(0, 6) if tier == 'quick' else range(0, 9)):
        for M in ([2, 4] if tier == 'quick' else [1, 2, 3, 4, 7]):
            out.append(('wsgi', n, M, True, None))
    # other ways a handler gets at the body: through request.copy(), lazily from the generator it returns, not at all
    for n in ((1, 3, 5) if tier == 'quick' else range(0, 8)):
        for M in ([2, 4] if tier == 'quick' else [1, 2, 4, 7]):
            for mode in ('copy', 'lazy', 'ignore', 'peekcopy', 'retype', 'peeklazy'):
                out.append(('wsgi-' + mode, n, M, True, None))
    # multipart content type: the body is parsed while it is buffered; it must still arrive byte-exact
    for fam in ((-1,) if tier == 'quick' else (-1, -2)):
        for M in ([3, 8, 64] if tier == 'quick' else [2, 3, 5, 8, 13, 64]):
            out.append(('comp', fam, M, True, None))
    out.append(('wsgi', -1, 5, True, None))
    # the input stream is a plain io.BytesIO holding more than Content-Length (what many servers and test clients hand over)
    out.append(('bytesio', 0, 0, False, None))
    # one environment fault per execution: a read that fails once (at every read position), a spool file that cannot be created
    out.append(('faults', 0, 0, False, None))
    # request sequences through one application (handlers that return, close or scribble on their body object)
    # two requests with bodies on two threads of one application: every schedule with <= 1 (thorough: 2 for the first pair) preemptions
    for pi in range(len(THREAD_BODIES)):
        for Mt in (4, 64):
            for start in (0, 1):
                for lo, hi in ((0, 250), (250, 500), (500, 10 ** 9)):       # (first deviating point of the schedule: a shard each)
                    out.append(('threads', pi, Mt, (start, lo, hi), 1))
                if tier == 'thorough':
                    for lo, hi in ((0, 20), (20, 40), (40, 10 ** 9)):
                        out.append(('threads', pi, Mt, (start, lo, hi), 2))
    for first in range(len(SEQ_KINDS)):
        out.append(('appseq', first, 4, False, None))
        out.append(('appseq', first, 64, False, None))
    # seed extension: one extra (n, M) family, explored just as exhaustively
    extra_n = 9 + seed % 3 if tier == 'quick' else 15 + seed % 2
    out.append(('comp', extra_n, 2 + seed % 5, True, None))
    return out


def shards(tier, seed):
    c = []
    for t in configs(tier, seed):
        if t[1] < 0:          # the multipart family is the costly one: one shard per Content-Length
            c.extend(t + ((CL,),) for CL in cls_for(t[1]))
        else:
            c.append(t + (None,))
    c.sort(key=lambda t: -((t[1] if t[1] >= 0 else 40) * (3 if not t[3] else 1)))
    return c


def bounds(tier, seed):
    c = configs(tier, seed)
    return {'configs': len(c), 'max_n': max(t[1] for t in c), 'multipart_bodies': [b.decode() for b in MP_BODIES], 'thresholds': sorted({t[2] for t in c}),
            'content_length': 'absent, 0..n+2', 'multipart_family_answer_menu': 'reads that could be answered in more than 8 ways are answered with all/1/2/all-1 bytes', 'unmerged_bound': 2}


FLOORS = {'schedules': 1000, 'app_sequences': 1000, 'bytesio_cases': 500, 'multipart_ctype': 4, 'short_read_execs': 50, 'kind_file': 5, 'kind_memory': 5, 'cl_below': 5, 'cl_equal': 5, 'cl_above': 5,
          'wsgi_execs': 20}


def _src_prefix():
    import os
    return os.path.join(os.path.realpath(sut.SRC), 'ombott') + os.sep


def expected(data, CL):
    if CL is None or CL <= 0:
        return b''
    return data[:CL]


METHODS = ['POST', 'GET', 'PUT', 'DELETE', 'HEAD']     # a body is a body whatever the verb (GET with a JSON payload is common)


def method_for(n, M, wsgi_level=False):
    m = METHODS[(abs(n) + M) % len(METHODS)]
    return 'PATCH' if (wsgi_level and m == 'HEAD') else m          # (a HEAD answer carries no body to echo)


def run_component(om, ex, n, CL, M):
    data = data_of(n)
    stream = ChoiceStream(ex, data, _src_prefix(), menu_cap=8 if n < 0 else None)
    env = wsgi.environ(method_for(n, M), '/', input=stream, clen=CL, ctype=MP_CTYPE if n < 0 else None)
    req = om.Request(env, config={'max_memfile_size': M})
    obs = {'hang': False, 'exc': None}
    try:
        b = req.body
        obs['kind'] = body_kind(b)
        obs['content'] = b.read()
        obs['again'] = req.body.read()
        wi = env['wsgi.input']
        obs['replaced'] = wi is not stream
        if wi is not stream:
            wi.seek(0)
            obs['wsgi_input'] = wi.read()
    except Horizon:
        obs['hang'] = True
    except Exception as e:   # noqa
        obs['exc'] = f'{type(e).__name__}: {e}'
    obs['calls'] = list(stream.calls)
    return obs


def run_wsgi(om, ex, n, CL, M, mode='echo'):
    data = data_of(n)
    stream = ChoiceStream(ex, data, _src_prefix(), menu_cap=8 if n < 0 else None)
    app = om.Ombott({'max_memfile_size': M})
    seen = {}

    def h():
        if mode == 'ignore':
            return b'ignored'
        if mode == 'lazy':
            def g():
                yield b'>'
                seen['content'] = app.request.body.read()       # the body is looked at only while the answer is streamed
                seen['again'] = app.request.body.read()
                yield seen['content']
            return g()
        if mode == 'peeklazy':
            seen['peek'] = app.request.body.read(1)               # the body is buffered while the handler runs ...

            def g2():
                yield b'>'
                seen['content'] = app.request.body.read()       # ... and read while the answer is streamed
                seen['again'] = app.request.body.read()
                yield seen['content']
            return g2()
        if mode == 'copy':
            cp = app.request.copy()                               # the body is reached through a copy of the request only
            seen['content'] = cp.body.read()                      # (the original and a copy taken before anything was buffered are two
            seen['again'] = cp.body.read()                        #  readers of one one-shot stream: using both is not judged)
            return seen['content']
        if mode == 'peekcopy':
            seen['peek'] = app.request.body.read(1)
            seen['content'] = app.request.copy().body.read()      # a copy taken after the original was partly read
            seen['again'] = app.request.body.read()
            return seen['content']
        if mode == 'retype':
            seen['peek'] = app.request.body.read(2)               # the handler sniffs the body, re-labels the request ...
            app.request['CONTENT_TYPE'] = 'application/x-sniffed'
            seen['content'] = app.request.body.read()             # ... and reads it: still the whole body
            app.request['CONTENT_TYPE'] = 'text/plain'
            seen['again'] = app.request.body.read()
            return seen['content']
        seen['content'] = app.request.body.read()
        seen['again'] = app.request.body.read()
        return seen['content']
    app.route('/p', ['POST', 'GET', 'PUT', 'DELETE', 'PATCH'], h)
    env = wsgi.environ(method_for(n, M, True), '/p', input=stream, clen=CL, ctype=MP_CTYPE if n < 0 else None)
    obs = {'hang': False, 'exc': None}
    try:
        c = wsgi.call(app, env)
        obs['status'] = c.status
        obs['resp_body'] = c.body
        obs['content'] = seen.get('content')
        obs['again'] = seen.get('again')
        if c.escaped is not None:
            obs['exc'] = repr(c.escaped)
    except Horizon:
        obs['hang'] = True
    obs['calls'] = list(stream.calls)
    return obs


def judge(kind, obs, n, CL, M):
    """Return None or (class, text)."""
    data = data_of(n)
    exp = expected(data, CL)
    if obs['hang']:
        return 'hang', 'read loop exceeded the step horizon'
    if obs['exc']:
        return 'exception', f'unexpected exception {obs["exc"]}'
    limit = max(CL or 0, 0)
    delivered = 0
    for req, k in obs['calls']:
        if req is None or req > limit - delivered:
            return 'overread', (f'read({req}) issued after {delivered} of Content-Length={CL} bytes were delivered '
                                f'(only {limit - delivered} may still be requested)')
        delivered += k
    if kind != 'wsgi-ignore':
        if obs.get('content') != exp:
            return 'content', f'body.read() gave {obs.get("content")!r}, expected {exp!r}'
        if obs.get('again') != exp:
            return 'reread', f'second access to body gave {obs.get("again")!r}, expected {exp!r}'
    if kind == 'comp':
        if not obs.get('replaced'):
            return 'not-replaced', 'environ["wsgi.input"] was not replaced by the buffered body'
        if obs.get('wsgi_input') != exp:
            return 'wsgi-input', f'buffered wsgi.input holds {obs.get("wsgi_input")!r}, expected {exp!r}'
    else:
        want = {'wsgi-lazy': b'>' + exp, 'wsgi-peeklazy': b'>' + exp, 'wsgi-ignore': b'ignored'}.get(kind, exp)
        if obs.get('status') != '200 OK' or obs.get('resp_body') != want:
            return 'wsgi-response', f'handler answer was {obs.get("status")} {obs.get("resp_body")!r}, expected 200 {want!r}'
    return None


class RawStream(__import__('io').RawIOBase):
    """an unbuffered connection (io.RawIOBase): whatever is taken from it is gone - the next request's bytes too"""

    def __init__(self, data):
        self.data, self.pos = data, 0

    def readable(self):
        return True

    def readinto(self, b):
        k = min(len(b), len(self.data) - self.pos)
        b[:k] = self.data[self.pos:self.pos + k]
        self.pos += k
        return k


def run_bytesio(om, n, CL, M, extra, spelling=None, raw=False):
    import io
    data = data_of(n) + extra
    stream = RawStream(data) if raw else io.BytesIO(data)
    env = wsgi.environ('POST', '/', input=stream, clen=CL if spelling is None else spelling % CL)
    req = om.Request(env, config={'max_memfile_size': M})
    obs = {'hang': False, 'exc': None, 'calls': [], 'replaced': True}
    try:
        b = req.body
        obs['kind'] = body_kind(b)
        obs['content'] = b.read()
        obs['again'] = req.body.read()
        wi = env['wsgi.input']
        wi.seek(0)
        obs['wsgi_input'] = wi.read()
        obs['taken'] = stream.pos if raw else None
    except Exception as e:   # noqa
        obs['exc'] = f'{type(e).__name__}: {e}'
    return obs, data


def run_retarget(om, n, CL, M, look_first):
    """a request that arrived chunked is turned into a Content-Length request through the item interface (a gateway / middleware that
    de-chunks up front): a hook may have looked at request.chunked before"""
    import io
    data = data_of(n) + b'NEXT-REQUEST'
    env = wsgi.environ('POST', '/', input=io.BytesIO(b'5\r\nhello\r\n0\r\n\r\n'), clen=None, chunked=True)
    req = om.Request(env, config={'max_memfile_size': M})
    try:
        if look_first:
            assert req.chunked is True
        req['wsgi.input'] = io.BytesIO(data)
        req['CONTENT_LENGTH'] = str(CL)
        del req['HTTP_TRANSFER_ENCODING']
        return req.body.read(), data
    except Exception as e:   # noqa
        return f'{type(e).__name__}: {e}', data


def work_bytesio(res, om):
    c = res['counters']
    for n in (0, 1, 5, 10):
        for CL in [x for x in cls_for(n) if x is not None and x >= 0]:
            for M in (1, 3, 64):
                for look_first in (False, True):
                    got, data = run_retarget(om, n, CL, M, look_first)
                    res['execs'] += 1
                    res['states'] += 1
                    res['transitions'] += 1
                    c['retargeted'] += 1
                    exp = expected(data, CL)
                    if got != exp:
                        core.add_violation(res, {'kind': 'retarget', 'n': n, 'CL': CL, 'M': M, 'look_first': look_first, 'choices': []},
                                           f'a chunked request{" whose request.chunked was looked at" if look_first else ""} is given a plain stream {data!r}, Content-Length {CL} and no '
                                           f'Transfer-Encoding through request[...] (M={M}): body {got!r}, expected {exp!r}', sig='retarget')
    for n in range(0, 11):
        for extra in (b'', b'NEXT-REQUEST'):
            for CL in cls_for(n):
                for M in (1, 3, 8, 64):
                    obs, data = run_bytesio(om, n, CL, M, extra)
                    res['execs'] += 1
                    res['states'] += 1
                    res['transitions'] += 1
                    c['bytesio_cases'] += 1
                    exp = expected(data, CL)
                    bad = None
                    if obs['exc']:
                        bad = obs['exc']
                    elif obs['content'] != exp or obs['again'] != exp or obs['wsgi_input'] != exp:
                        bad = f'body {obs["content"]!r} / second access {obs["again"]!r} / buffered wsgi.input {obs["wsgi_input"]!r}, expected {exp!r}'
                    if bad:
                        core.add_violation(res, {'kind': 'bytesio', 'n': n, 'CL': CL, 'M': M, 'extra': extra, 'choices': []},
                                           f'BytesIO input {data!r} CL={CL} M={M}: {bad}', sig='bytesio:content')
    # Content-Length spelled with leading zeros / surrounding blanks; an unbuffered (io.RawIOBase) connection that holds the next
    # request behind the body: nothing beyond Content-Length may be taken from it
    nxt = b'NEXT-REQUEST ' * 1000
    for n in (0, 1, 5, 10):
        for CL in [x for x in cls_for(n) if x is not None and x >= 0]:
            for M in (1, 3, 64):
                for spelling, raw in (('%03d', False), ('0000000%d', False), (' %d ', False), (None, True), ('%02d', True)):
                    obs, data = run_bytesio(om, n, CL, M, nxt, spelling, raw)
                    res['execs'] += 1
                    res['states'] += 1
                    res['transitions'] += 1
                    c['bytesio_cases'] += 1
                    exp = expected(data, CL)
                    bad = None
                    if obs['exc']:
                        bad = obs['exc']
                    elif obs['content'] != exp or obs['again'] != exp:
                        bad = f'body {obs["content"]!r} / second access {obs["again"]!r}, expected {exp!r}'
                    elif raw and obs['taken'] > max(CL, 0):
                        bad = f'{obs["taken"]} bytes were taken from the unbuffered stream, Content-Length is {CL}'
                    if bad:
                        core.add_violation(res, {'kind': 'bytesio', 'n': n, 'CL': CL, 'M': M, 'extra': nxt, 'choices': [], 'spelling': spelling, 'raw': raw},
                                           f'{"unbuffered raw" if raw else "BytesIO"} input, Content-Length spelled {(spelling or "%d") % CL!r} M={M}: {bad}',
                                           sig='bytesio:' + ('overread' if 'taken' in bad else 'content'))
    core.add_sample(res, {'kind': 'bytesio', 'lengths': '0..10', 'trailing': ['', 'NEXT-REQUEST'], 'content_length_spellings': ['%d', '%03d', '0000000%d', ' %d '],
                          'unbuffered_raw_stream': True})


class FaultyStream:
    """answers reads in pieces of `piece` bytes; the read with index `fail_at` raises once (a timeout on the socket)"""

    def __init__(self, data, piece, fail_at):
        self.data, self.pos, self.piece, self.fail_at = data, 0, piece, fail_at
        self.reads = 0
        self.requested = []

    def read(self, n=-1):
        i = self.reads
        self.reads += 1
        self.requested.append(n)
        if i == self.fail_at:
            raise TimeoutError('timed out')
        k = len(self.data) - self.pos if (n is None or n < 0) else min(n, self.piece, len(self.data) - self.pos)
        out = self.data[self.pos:self.pos + k]
        self.pos += k
        return out


def fault_case(om, n, CL, M, piece, fail_at, no_spool):
    """-> (problem or None, outcome label)"""
    data = data_of(n) + b'NEXT-REQUEST'
    bm = sut.sub('request_pkg.body_mixin')
    real_tf = bm.TemporaryFile
    stream = FaultyStream(data, piece, fail_at)
    app = om.Ombott({'max_memfile_size': M})
    seen = {}

    def h():
        seen['content'] = app.request.body.read()
        return seen['content']
    app.route('/p', 'POST', h)

    def refuse(*a, **kw):
        raise OSError(28, 'No space left on device')
    if no_spool:
        bm.TemporaryFile = refuse
    try:
        c = wsgi.call(app, wsgi.environ('POST', '/p', input=stream, clen=CL))
    finally:
        bm.TemporaryFile = real_tf
    exp = data[:CL]
    if 'content' in seen or c.code == 200:
        if seen.get('content') != exp or (c.code == 200 and c.body != exp):
            return (f'the handler was given {seen.get("content")!r} (answer {c.status} {c.body[:40]!r}); the body is {exp!r}', 'served')
        if stream.pos > CL:
            return (f'{stream.pos} bytes were taken from the connection, Content-Length is {CL}', 'served')
        return None, 'served'
    if c.escaped is None and (c.code is None or c.code < 400):
        return f'status {c.status} without the handler having seen a body', 'odd'
    if stream.pos > CL:
        return (f'answered {c.status if c.escaped is None else repr(c.escaped)}, but {stream.pos} bytes were taken from the connection, Content-Length is {CL}', 'failed')
    return None, 'failed'


def work_faults(res, om):
    c = res['counters']
    for n in (3, 6, 10):
        for M in (2, 4, 64):
            for piece in (1, 3, 100):
                CL = n
                for no_spool in (False, True):
                    for fail_at in ([None] if no_spool else []) + list(range(0, n + 3)):
                        case = {'kind': 'faults', 'n': n, 'CL': CL, 'M': M, 'piece': piece, 'fail_at': fail_at, 'no_spool': no_spool, 'choices': []}
                        core.track(res, case)
                        bad, label = fault_case(om, n, CL, M, piece, fail_at, no_spool)
                        res['execs'] += 1
                        res['states'] += 1
                        res['transitions'] += 1
                        res['nontrivial'] += 1
                        c['fault_cases'] += 1
                        c['fault_' + label] += 1
                        res['outcomes'].add('fault: ' + (label if bad is None else 'BAD'))
                        if bad:
                            core.add_violation(res, case, f'{case}: {bad}', sig='faults:' + label)
    core.untrack()


# ---- request sequences through one application: what a handler does with ITS body object is its own business -----------------

SEQ_BODIES = [(0, 0), (0, None), (3, 3), (5, 2), (6, 6)]          # (bytes on the wire, Content-Length)
SEQ_STYLES = ['read', 'ret', 'with', 'append']
SEQ_KINDS = [(b, st) for b in range(len(SEQ_BODIES)) for st in SEQ_STYLES]


def seq_app(om, M):
    app = om.Ombott({'max_memfile_size': M})

    def read():
        return app.request.body.read()

    def ret():
        return app.request.body                  # a file-like answer: the server closes it when it is done

    def with_():
        with app.request.body as f:              # a tidy handler closes what it opened
            return f.read()

    def append():
        b = app.request.body
        data = b.read()
        b.write(b'-audit')                       # (its own buffered copy: scribbling on it is nobody else's business)
        return data
    for st, h in zip(SEQ_STYLES, (read, ret, with_, append)):
        app.route('/' + st, 'POST', h)
    return app


def seq_problem(om, M, seq):
    """serve the sequence on a freshly imported framework -> None | (index, text)"""
    app = seq_app(om, M)
    for i, k in enumerate(seq):
        b, st = SEQ_KINDS[k]
        n, CL = SEQ_BODIES[b]
        data = data_of(n)
        c = wsgi.call(app, wsgi.environ('POST', '/' + st, input=io.BytesIO(data), clen=CL))
        exp = expected(data, CL)
        if c.escaped is not None or c.code != 200 or c.body != exp:
            return i, (f'request #{i + 1} ({n} bytes on the wire, Content-Length {CL}, handler style {st!r}) is answered {c.status} {c.body[:40]!r} '
                       f'{"escaped " + repr(c.escaped) if c.escaped is not None else ""}; its body is {exp!r}')
    return None


def work_appseq(res, M, first):
    c = res['counters']
    for seq in itertools.product([first], range(len(SEQ_KINDS)), range(len(SEQ_KINDS))):
        om = sut.load(fresh=True)
        res['states'] += 1
        res['transitions'] += 3
        res['execs'] += 3
        c['app_sequences'] += 1
        res['nontrivial'] += 1
        pr = seq_problem(om, M, seq)
        res['outcomes'].add('request sequence ' + ('ok' if pr is None else 'DIFF'))
        if pr is not None:
            core.add_violation(res, {'kind': 'appseq', 'M': M, 'seq': list(seq), 'choices': []},
                               f'one application (max_memfile_size={M}) serves {[(SEQ_BODIES[SEQ_KINDS[k][0]], SEQ_KINDS[k][1]) for k in seq]} one after the other: {pr[1]}',
                               sig='appseq')
    sut.load(fresh=True)
    core.add_sample(res, {'kind': 'appseq', 'bodies (bytes, Content-Length)': [list(map(str, b)) for b in SEQ_BODIES], 'handler_styles': SEQ_STYLES, 'length': 3, 'M': M})


# ---- two requests with bodies on two threads of one application (E-SCHED) ------------------------------------------------------

HERE = __import__('os').path.abspath(__file__)
THREAD_BODIES = [(b'AAAAAAAAAA', b'bbbbbbbbbb'), (b'AAAAAAAAAA', b'bbb'), (b'0123456789', b'')]


def run_threads(om, M, pair, prefix, gran='line'):
    from vf.sched import Scheduler
    app = seq_app(om, M)
    progs = [(lambda d=d: wsgi.call(app, wsgi.environ('POST', '/read', input=io.BytesIO(d + b'NEXT'), clen=len(d)))) for d in pair]
    sp = _src_prefix()
    return Scheduler(progs, prefix, lambda fn: fn.startswith(sp) or fn == HERE, granularity=gran).run()


def judge_threads(pair, x):
    if x.hung:
        return 'threads:hang', 'a thread did not finish'
    for t, e in x.errors.items():
        return 'threads:error', f'thread {t} raised {type(e).__name__}: {e}'
    for t in (0, 1):
        r = x.results[t]
        if r.code != 200 or r.body != pair[t]:
            return 'threads:body', f'the request that sent {pair[t]!r} was presented {r.body!r} (status {r.status})'
    return None


def work_threads(res, pi, M, start, bound):
    from vf.sched import explore
    c = res['counters']
    pair = THREAD_BODIES[pi]
    start, lo, hi = start
    gran = 'call' if bound >= 2 else 'line'        # two preemptions: scheduling points at function entries
    for prefix, x in explore(lambda p: run_threads(sut.load(fresh=True), M, pair, p, gran), bound, base=(start,), first_points=(lo, hi)):
        res['states'] += 1
        res['transitions'] += len(x.points)
        res['execs'] += 1
        c['schedules'] += 1
        if x.switches:
            res['nontrivial'] += 1
        v = judge_threads(pair, x)
        res['outcomes'].add('threads ' + ('ok' if v is None else v[0]))
        if v is not None:
            core.add_violation(res, {'kind': 'threads', 'pair': pi, 'M': M, 'choices': list(x.choices), 'gran': gran},
                               f'requests with the bodies {pair[0]!r} and {pair[1]!r} on two threads of one application (max_memfile_size={M}), {x.switches} switches: {v[1]}',
                               sig=v[0])
    sut.load(fresh=True)
    core.add_sample(res, {'kind': 'threads', 'bodies': [repr(b) for b in pair], 'M': M, 'first_thread': start, 'preemption_bound': bound, 'schedules': c['schedules']})


def work(spec):
    kind, n, M, merge, bound, cls = spec
    res = core.new_result()
    om = sut.load()
    if kind == 'threads':
        work_threads(res, n, M, merge, bound)
        return res
    if kind == 'appseq':
        work_appseq(res, M, n)
        return res
    if kind == 'bytesio':
        work_bytesio(res, om)
        return res
    if kind == 'faults':
        work_faults(res, om)
        return res
    runner = run_component if kind == 'comp' else (lambda om_, e_, n_, cl_, m_: run_wsgi(om_, e_, n_, cl_, m_, kind[5:] or 'echo'))
    for CL in (cls or cls_for(n)):
        ex = EnvExplorer(merge=merge, bound=bound, horizon=60 * (len(data_of(n)) + 3), max_execs=20000)
        for choices, obs in ex.explore(lambda e: runner(om, e, n, CL, M)):
            res['execs'] += 1
            res['transitions'] += len(obs['calls'])
            c = res['counters']
            if any(choices):
                c['short_read_execs'] += 1
                res['nontrivial'] += 1
            if kind.startswith('wsgi'):
                c['wsgi_execs'] += 1
            if obs.get('kind'):
                c['kind_' + obs['kind']] += 1
            v = judge(kind, obs, n, CL, M)
            res['outcomes'].add(f'{kind} {obs.get("kind")} len={len(obs.get("content") or b"")} '
                                f'reads={min(len(obs["calls"]), 6)} {"ok" if v is None else v[0]}')
            if v is not None:
                core.add_violation(res, {'kind': kind, 'n': n, 'CL': CL, 'M': M, 'choices': choices},
                                   f'n={n} CL={CL} M={M} answers={choices}: {v[1]}', sig=f'{kind}:{v[0]}')
        c = res['counters']
        if CL is not None:
            nn = len(data_of(n))
            c['cl_below' if CL < nn else 'cl_equal' if CL == nn else 'cl_above'] += 1
            if n < 0:
                c['multipart_ctype'] += 1
        res['states'] += len(ex.seen) + 1
        c['points_merged'] += ex.merged
        c['points_expanded'] += ex.points_expanded
        if ex.capped:
            res['caps'].append(f'execution cap hit for {spec} CL={CL}')
    core.add_sample(res, {'kind': kind, 'n': n, 'M': M, 'merge': merge, 'bound': bound,
                          'content_lengths': [str(x) for x in cls_for(n)], 'executions': res['execs']})
    return res


def replay(case):
    om = sut.load()
    if case['kind'] == 'threads':
        pair = THREAD_BODIES[case['pair']]
        x = run_threads(sut.load(fresh=True), case['M'], pair, case['choices'], case.get('gran', 'line'))
        v = judge_threads(pair, x)
        sut.load(fresh=True)
        return None if v is None else (f'requests with the bodies {pair[0]!r} and {pair[1]!r} on two threads of one application (max_memfile_size={case["M"]}) under the '
                                       f'schedule with {x.switches} switches: {v[1]}')
    if case['kind'] == 'retarget':
        got, data = run_retarget(om, case['n'], case['CL'], case['M'], case['look_first'])
        exp = expected(data, case['CL'])
        return None if got == exp else (f'a request that arrived chunked{" (a hook looked at request.chunked)" if case["look_first"] else ""} is given a plain stream {data!r}, '
                                        f'Content-Length {case["CL"]} and no Transfer-Encoding through request[...] (max_memfile_size={case["M"]}): request.body gives {got!r}, '
                                        f'expected {exp!r}')
    if case['kind'] == 'appseq':
        pr = seq_problem(sut.load(fresh=True), case['M'], case['seq'])
        sut.load(fresh=True)
        if pr is None:
            return None
        return (f'one application (max_memfile_size={case["M"]}) serves the requests (bytes on the wire, Content-Length, handler style) '
                f'{[(SEQ_BODIES[SEQ_KINDS[k][0]], SEQ_KINDS[k][1]) for k in case["seq"]]} one after the other: {pr[1]}')
    if case['kind'] == 'faults':
        bad, label = fault_case(om, case['n'], case['CL'], case['M'], case['piece'], case['fail_at'], case['no_spool'])
        if bad is None:
            return None
        fault = ('the temporary file for bodies above max_memfile_size cannot be created (OSError)' if case['no_spool'] else '') + \
                (' and ' if case['no_spool'] and case['fail_at'] is not None else '') + \
                (f'read #{case["fail_at"]} on wsgi.input raises TimeoutError once' if case['fail_at'] is not None else '')
        return (f'POST of {case["n"]} bytes (Content-Length={case["CL"]}, max_memfile_size={case["M"]}, the connection holds the next request behind the body and answers '
                f'reads with at most {case["piece"]} bytes); {fault}: {bad}')
    if case['kind'] == 'bytesio':
        obs, data = run_bytesio(om, case['n'], case['CL'], case['M'], case['extra'], case.get('spelling'), bool(case.get('raw')))
        exp = expected(data, case['CL'])
        if case.get('raw') and not obs['exc'] and obs['content'] == exp and obs['taken'] > max(case['CL'], 0):
            return (f'wsgi.input is an unbuffered io.RawIOBase connection holding {len(data)} bytes, Content-Length={case["CL"]}, max_memfile_size={case["M"]}: '
                    f'{obs["taken"]} bytes were taken from it (the body itself is right)')
        if not obs['exc'] and obs['content'] == exp and obs['again'] == exp and (case.get('raw') or obs['wsgi_input'] == exp):
            return None
        return (f'wsgi.input = io.BytesIO({data!r}), Content-Length={case["CL"]}, max_memfile_size={case["M"]}: body.read() gives '
                f'{obs.get("content")!r} (second access {obs.get("again")!r}, exception {obs["exc"]}); expected {exp!r}')
    runner = run_component if case['kind'] == 'comp' else (lambda om_, e_, n_, cl_, m_: run_wsgi(om_, e_, n_, cl_, m_, case['kind'][5:] or 'echo'))
    n, CL, M = case['n'], case['CL'], case['M']
    ex = EnvExplorer(merge=False, horizon=60 * (len(data_of(n)) + 3))
    obs = ex.replay(lambda e: runner(om, e, n, CL, M), case['choices'])
    v = judge(case['kind'], obs, n, CL, M)
    if v is None:
        return None
    answers = [k for _, k in obs['calls']]
    how = {'wsgi-copy': ' (handler reads request.copy().body)', 'wsgi-lazy': ' (handler returns a generator that reads request.body after its first chunk)',
           'wsgi-ignore': ' (handler does not look at the body)', 'wsgi-peekcopy': ' (handler reads 1 byte of request.body, then request.copy().body)',
           'wsgi-peeklazy': ' (handler reads 1 byte of request.body and returns a generator that reads request.body after its first chunk)',
           'wsgi-retype': ' (handler reads 2 bytes of request.body, assigns request["CONTENT_TYPE"], reads request.body)'}.get(case['kind'], '')
    how += f' [{method_for(n, M, case["kind"] != "comp")} request]'
    return (f'{case["kind"]}{how}: data={data_of(n)!r} Content-Length={CL} max_memfile_size={M}; stream answered the '
            f'reads {[r for r, _ in obs["calls"]]} with {answers} bytes: {v[1]}')

MANIFEST['text'] += ' Also after a Content-Type change between two reads, with the body touched in the handler and read while the answer streams, and under one environment fault per execution (a read failing once at every position, a spool file that cannot be created).'
MANIFEST['text'] += ' An E-SCHED layer serves two requests with bodies on two threads of one application under every schedule with <= 1 preemption (2 for one pair in the thorough tier); a sequence layer serves all 3-request sequences over 5 bodies x 4 handler styles (returning, closing, writing to the body object) through one application.'
if 'E-SCHED' not in MANIFEST['engines']:
    MANIFEST['engines'] = list(MANIFEST['engines']) + ['E-SCHED']
MANIFEST['technique'] += '; stateless exploration of all two-thread schedules (preemption-bounded, source-line scheduling points) for the state the property could park on shared objects'
