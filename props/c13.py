"""C13 — body size limits and disk spooling bound what a request can consume.

Engine: E-ENUM over sizes x limits x framing x content type, each case driven through Ombott.__call__ with a
recording input stream under E-ENV deviation bounding (all executions with <= 1 short read answer, plus the
byte-at-a-time stream).
Oracle: body larger than max_body_size -> 413 under both framings with at most limit + one buffer of payload bytes
consumed from the stream; body within the limit -> accepted with identical content; accepted body larger than
max_memfile_size -> held in a real file, not in memory; urlencoded / JSON text larger than the threshold ->
refused (4xx) and never handed to the handler; multipart: a file part larger than the threshold is delivered
intact while text fields whose data exceed the threshold are not delivered.
"""
import json

from vf import core, sut, wsgi, refmp
from vf.env import EnvExplorer, ChoiceStream, Horizon, body_kind

ID = 'C13'
TITLE = 'Body size limits and disk spooling bound what a request can consume'
ENGINE = 'E-ENUM (sizes x limits x framing x content type) + E-ENV (<=1 short read, byte-at-a-time)'
RULE = ('one state per (max_body_size, max_memfile_size, size, framing, content type) case; executions = WSGI calls, '
        'one per explored read-answer sequence; non-trivial = cases within 1 of a limit or above it')
ASSUMPTIONS = [
    'payload bytes consumed are counted from the stream position (framing bytes of chunked encoding excluded)',
    'for multipart forms "refused" is judged as "not delivered to the handler"; the status class is C12\'s business',
    'multipart text between (threshold - header block) and threshold may be delivered or refused (the budget also '
    'counts header blocks); above the threshold it must be refused',
]
MANIFEST = {
    'engines': ['E-ENUM', 'E-ENV'],
    'technique': 'bounded-exhaustive enumeration of (limits, body size, framing, content type) cases through '
                 'Ombott.__call__ with a recording stream; per case every execution with <=1 short read plus '
                 'byte-at-a-time; oracle = 413/accept by size, bytes consumed <= limit+buffer, spooled-to-file iff required',
    'text': 'Every combination of max_body_size, max_memfile_size, body size around both limits (and far above), '
            'Content-Length / chunked framing (all listed chunk sizes; chunked with a misleading Content-Length) and '
            'content type (raw, urlencoded, JSON, multipart text / file parts) is served by the real application; '
            'status, consumed bytes, body storage kind and delivered content are compared with the size model. Parts with an empty file name may be classified either way, but request.forms never holds more text than the threshold.',
    'note': 'Bounds: limits {None,0,5,10}, thresholds {1,4,8,100} (multipart 64/100), sizes 0..limit+threshold+3 and 1000; '
            '<=1 short read per execution + byte-at-a-time. Trusted: CPython, reference multipart/chunked encoders.',
}

LS = [None, 0, 5, 10]
MS = [1, 4, 8, 100]


def sizes(L, M, tier):
    top = (L if L is not None else 6) + M + 3
    if M == 100:
        base = list(range(0, 14)) + [M - 1, M, M + 1] + ([L + M - 1, L + M, L + M + 1, L + M + 3] if L is not None else [])
    else:
        base = list(range(0, top + 1))
    return sorted(set(base + [1000]))


def framings(n, M, ct):
    out = [('cl', None)]
    for cs in sorted({1, 3, M, M + 1, max(n, 1)}):
        out.append(('chunked', cs))
    if ct == 'raw':
        # contradictory headers (RFC 7230 3.3.3: chunked wins); only the raw body and the limit are judged
        out.append(('chunked+cl0', 3))
        out.append(('chunked+cl0', max(n, 1)))
        # every chunk followed by a size line with a minus sign (the decoder reads it as an empty chunk): what counts
        # for the limit is what was received, not what the size lines add up to
        out.append(('chunked-neg', 3))
        out.append(('chunked-neg', max(n, 1)))
    return out


def make_payload(ctype, n):
    if ctype == 'raw':
        return bytes((i * 7 + 1) % 251 for i in range(n))
    if ctype == 'urlencoded':
        return (b'a=' + b'x' * (n - 2)) if n >= 2 else b'a'[:n]
    if ctype == 'json':
        if n < 2:
            return b'1'[:n]
        return b'"' + b'y' * (n - 2) + b'"'
    raise AssertionError(ctype)


CTYPE = {'raw': 'application/octet-stream', 'urlencoded': 'application/x-www-form-urlencoded',
         'json': 'application/json'}


def shards(tier, seed):
    out = []
    ls, ms = (LS, MS) if tier == 'quick' else (LS + [1, 2, 3, 7, 20, 50], MS + [2, 3, 5, 6, 12, 16, 33])
    for L in ls:
        for M in ms:
            for ct in ('raw', 'urlencoded', 'json'):
                out.append(('plain', L, M, ct, tier))
    for M in ([64] if tier == 'quick' else [64, 100]):
        for L in (None, 400):
            out.append(('multipart', L, M, None, tier))
    # a threshold that is large against the part headers (several fields fit one by one, not together)
    out.append(('multipart', None, 1024, None, tier))
    # one application serves bodies above and below the limit one after the other (what one refusal leaves behind must not
    # decide the next answer)
    out.append(('sequence', 5, 4, None, tier))
    out.append(('nospool', None, None, None, tier))
    # two multipart forms on two threads of one application: every schedule with <= 1 (thorough: 2 for the first pair) preemptions
    for fi in range(len(THREAD_FORMS)):
        for start in (0, 1):
            for lo, hi in ((0, 300), (300, 600), (600, 900), (900, 10 ** 9)):      # (first deviating point of the schedule: a shard each)
                out.insert(0, ('threads', fi, start, 1, (lo, hi)))
            if tier == 'thorough':
                for lo, hi in ((0, 40), (40, 80), (80, 120), (120, 10 ** 9)):
                    out.insert(0, ('threads', fi, start, 2, (lo, hi)))
    # seed extension: another (limit, threshold) pair, enumerated just as exhaustively
    out.append(('plain', 3 + seed % 9, 2 + seed % 6, 'raw', tier))
    out.append(('plain', 3 + seed % 9, 2 + seed % 6, 'urlencoded', tier))
    return out


def bounds(tier, seed):
    return {'max_body_size': [str(x) for x in LS], 'max_memfile_size': MS, 'sizes': '0..limit+threshold+3 and 1000',
            'framing': 'Content-Length; chunked with chunk size 1, 3, M, M+1, n; chunked with Content-Length: 0',
            'reads': 'all executions with <=1 short answer (thorough: <=2 for sizes <= 12) + byte-at-a-time'}


FLOORS = {'schedules': 1000, 'sequence_requests': 200, 'via_copy': 500, 'rejected_413': 200, 'accepted': 200, 'spooled_file': 50, 'text_refused': 50, 'mp_file_intact': 4,
          'mp_text_refused': 2, 'short_read_execs': 200}


def _src_prefix():
    import os
    return os.path.join(os.path.realpath(sut.SRC), 'ombott') + os.sep


class OneByteStream(ChoiceStream):
    def read(self, n=-1):
        avail = len(self.data) - self.pos
        k = min(1, avail) if (n is None or n != 0) else 0
        out = self.data[self.pos:self.pos + k]
        self.pos += k
        self.calls.append((n, k))
        if len(self.calls) > self.ex.horizon:
            raise Horizon()
        return out


def encode(payload, framing, arg):
    """-> (raw stream bytes, environ kwargs, payload_count(pos) function)"""
    if framing == 'cl':
        return payload, {'clen': len(payload)}, (lambda pos: pos), 0
    pieces = [payload[i:i + arg] for i in range(0, len(payload), arg)]
    raw = bytearray()
    marks = []   # (raw_start, raw_end, payload_start)
    p = 0
    longest = 3
    for pc in pieces:
        raw += b'%x\r\n' % len(pc)
        longest = max(longest, len(b'%x\r\n' % len(pc)))
        marks.append((len(raw), len(raw) + len(pc), p))
        raw += pc + b'\r\n'
        p += len(pc)
        if framing == 'chunked-neg':
            raw += b'-%x\r\n\r\n' % len(pc)
            longest = max(longest, len(b'-%x\r\n' % len(pc)))
    raw += b'0\r\n\r\n'

    def count(pos):
        tot = 0
        for s, e, ps in marks:
            if pos >= e:
                tot = ps + (e - s)
            elif pos > s:
                tot = ps + (pos - s)
        return tot
    kw = {'clen': None, 'chunked': True}
    if framing == 'chunked+cl0':
        kw['clen'] = 0
    return bytes(raw), kw, count, longest


def serve(om, ex, L, M, ctype_header, accessor, raw, envkw, onebyte=False, via_copy=False):
    cls = OneByteStream if onebyte else ChoiceStream
    stream = cls(ex, raw, _src_prefix())
    app = om.Ombott({'max_body_size': L, 'max_memfile_size': M})
    seen = {}

    def h():
        rq = app.request
        if via_copy:
            rq = rq.copy()          # the body is read for the first time through a copy of the request
        if accessor == 'raw':
            b = rq.body
            seen['kind'] = body_kind(b)
            seen['value'] = b.read()
        elif accessor == 'forms':
            seen['value'] = dict(rq.forms)
        elif accessor == 'json':
            seen['value'] = rq.json
        elif accessor == 'multipart':
            seen['forms'] = dict(rq.forms)
            # uploads are windows onto the one buffered body: a few bytes of each, a look at the raw body, then the rest of each
            items = list(rq.files.items())
            heads = {k: v.file.read(3) for k, v in items}
            rq.body.read(5)
            seen['files'] = {k: heads[k] + v.file.read() for k, v in items}
            seen['kind'] = body_kind(rq.body)
        seen['done'] = True
        return 'ok'
    app.route('/p', 'POST', h)
    hdrs = {'Connection': ['keep-alive', 'Keep-Alive, TE'][len(raw) % 2]} if len(raw) % 3 else None      # most requests arrive on keep-alive connections
    env = wsgi.environ('POST', '/p', input=stream, ctype=ctype_header, headers=hdrs, **envkw)
    obs = {'hang': False}
    try:
        c = wsgi.call(app, env)
        obs['code'] = c.code
        obs['escaped'] = repr(c.escaped) if c.escaped is not None else None
    except Horizon:
        obs['hang'] = True
    obs['seen'] = seen
    obs['pos'] = stream.pos
    obs['calls'] = len(stream.calls)
    return obs


def judge_plain(obs, L, M, ct, n, payload, count, longest=0):
    if obs['hang']:
        return 'hang', 'step horizon exceeded'
    if obs.get('escaped'):
        return 'escaped', f'exception escaped: {obs["escaped"]}'
    code, seen = obs['code'], obs['seen']
    consumed = count(obs['pos'])
    if longest > M and code == 400 and not seen.get('done'):
        return None     # a chunk-size line longer than the buffer may be rejected (the decoder's stated bound)
    too_big = L is not None and n > L
    if too_big:
        if code != 413:
            return 'limit-not-enforced', f'{n}-byte body with max_body_size={L} answered {code}, expected 413'
        if consumed > L + M:
            return 'over-consumed', f'{consumed} payload bytes consumed before the 413 (limit {L} + buffer {M})'
        if seen.get('done'):
            return 'handler-ran', 'handler completed although the body exceeds max_body_size'
        return None
    # within the limit
    if ct == 'raw':
        if code != 200 or seen.get('value') != payload:
            return 'not-accepted', (f'{n}-byte body within max_body_size={L} gave {code}, handler saw '
                                    f'{len(seen.get("value") or b"")} bytes')
        if n > M and seen.get('kind') != 'file':
            return 'not-spooled', f'{n}-byte body with max_memfile_size={M} is held as {seen.get("kind")}, expected a file'
        return None
    text_too_big = n > M
    if text_too_big:
        if seen.get('done') or (code is not None and not 400 <= code < 500):
            return 'text-not-refused', (f'{ct} body of {n} bytes with max_memfile_size={M}: status {code}, '
                                        f'handler {"got the value" if seen.get("done") else "did not run"}; expected a 4xx refusal')
        return None
    if ct == 'urlencoded':
        exp = {'a': 'x' * (n - 2)} if n >= 2 else ({'a': ''} if n == 1 else {})
    else:
        exp = ('y' * (n - 2)) if n >= 2 else (1 if n == 1 else None)
    if code != 200 or seen.get('value') != exp:
        return 'text-wrong', f'{ct} body of {n} bytes (<= threshold {M}): status {code}, value {str(seen.get("value"))[:60]!r}, expected {str(exp)[:60]!r}'
    return None


def work_plain(spec):
    _, L, M, ct, tier = spec
    res = core.new_result()
    om = sut.load()
    c = res['counters']
    accessor = {'raw': 'raw', 'urlencoded': 'forms', 'json': 'json'}[ct]
    for n in sizes(L, M, tier):
        payload = make_payload(ct, n)
        for framing, arg in framings(n, M, ct):
            raw, envkw, count, longest = encode(payload, framing, arg)
            res['states'] += 1
            near = (L is not None and abs(n - L) <= 1) or abs(n - M) <= 1 or n > (L or 0) + M
            if near:
                res['nontrivial'] += 1
            case = {'kind': 'plain', 'L': L, 'M': M, 'ct': ct, 'n': n, 'framing': framing, 'arg': arg}

            def record(obs, choices, onebyte, via_copy=False):
                res['execs'] += 1
                if via_copy:
                    c['via_copy'] += 1
                res['transitions'] += obs['calls']
                v = judge_plain(obs, L, M, ct, n, payload, count, longest)
                code = obs.get('code')
                if code == 413:
                    c['rejected_413'] += 1
                elif code == 200:
                    c['accepted'] += 1
                    if obs['seen'].get('kind') == 'file':
                        c['spooled_file'] += 1
                if ct != 'raw' and n > M and not (L is not None and n > L) and v is None:
                    c['text_refused'] += 1
                if choices and any(choices) or onebyte:
                    c['short_read_execs'] += 1
                res['outcomes'].add(f'{ct} {framing} -> {code} {obs["seen"].get("kind")} {"ok" if v is None else v[0]}')
                if v is not None:
                    cs = dict(case, choices=choices, onebyte=onebyte, via_copy=via_copy)
                    core.add_violation(res, cs, f'{case} answers={choices} onebyte={onebyte}: {v[1]}',
                                       sig=f'plain:{ct}:{v[0]}')
            small = n <= 12
            bound = 0 if not small else (2 if tier == 'thorough' else 1)
            ex = EnvExplorer(merge=False, bound=bound, horizon=40 * (len(raw) + 10))
            for choices, obs in ex.explore(lambda e: serve(om, e, L, M, CTYPE[ct], accessor, raw, envkw)):
                record(obs, choices, False)
            ex1 = EnvExplorer(merge=False, horizon=40 * (len(raw) + 10))
            obs = ex1.replay(lambda e: serve(om, e, L, M, CTYPE[ct], accessor, raw, envkw, onebyte=True), [])
            record(obs, [], True)
            # the handler works on request.copy(): the limits are the application's, whichever Request object reads the body
            ex2 = EnvExplorer(merge=False, horizon=40 * (len(raw) + 10))
            obs = ex2.replay(lambda e: serve(om, e, L, M, CTYPE[ct], accessor, raw, envkw, via_copy=True), [])
            record(obs, [], False, True)
    core.add_sample(res, {'kind': 'plain', 'max_body_size': L, 'max_memfile_size': M, 'content_type': ct,
                          'sizes': sizes(L, M, tier), 'cases': res['states']})
    return res


# ---- multipart ---------------------------------------------------------------------------------------------

def mp_cases(M):
    hdr_t = len(refmp.cd('t'))
    hdr_f = len(refmp.cd('f', 'n.bin'))
    out = []
    for f in (0, 1, M - 1, M, M + 1, 3 * M, 10 * M):
        out.append([('f', 'n.bin', bytes((i * 5 + 3) % 256 for i in range(f)))])
    for t in (0, 1, M - hdr_t - 1, M - hdr_t, M - hdr_t + 1, M - 1, M, M + 1, 2 * M):
        if t >= 0:
            out.append([('t', None, b'z' * t)])
    out.append([('t', None, b'z' * 3), ('f', 'n.bin', b'q' * (4 * M))])
    out.append([('f', 'n.bin', b'q' * (4 * M)), ('t', None, b'z' * (M + 2))])
    out.append([('t', None, b'z' * (M // 2 + 2)), ('u', None, b'w' * (M // 2 + 2))])
    # leading field(s) that use up the in-memory budget exactly (or within one byte), then a large text field
    for d in (-1, 0, 1):
        out.append([('t', None, b'z' * (M - hdr_t + d)), ('u', None, b'w' * (3 * M))])
    half = (M - 2 * hdr_t) // 2
    out.append([('t', None, b'z' * half), ('u', None, b'y' * (M - 2 * hdr_t - half)), ('v', None, b'w' * (3 * M))])
    # several fields that fit one by one (and pairwise) but not together; text fields separated by an upload
    q = max(1, (4 * M) // 10)
    out.append([('t', None, b'z' * q), ('u', None, b'y' * q), ('v', None, b'w' * q)])
    out.append([('t%d' % i, None, b'z' * q) for i in range(6)])
    out.append([('t', None, b'z' * ((7 * M) // 10)), ('f', 'n.bin', b'q' * 3), ('u', None, b'w' * ((7 * M) // 10))])
    # a part with an EMPTY file name (a file input left empty): whichever way it is classified, no more than M bytes of
    # text may reach request.forms
    for e in (0, 1, M, M + 1, 3 * M):
        out.append([('e', '', b'v' * e)])
    out.append([('t', None, b'z' * 2), ('e', '', b'v' * (3 * M))])
    out.append([('e', '', b'v' * (M // 2 + 1)), ('g', '', b'u' * (M // 2 + 1))])
    # text of three- and four-byte characters: the budget is a budget of BYTES (fields that fit as characters but not as bytes)
    for ch in ('\u20ac', '\U0001f600'):
        w = len(ch.encode('utf8'))
        k = max(1, ((6 * M) // 10) // w)
        out.append([('t', None, (ch * k).encode('utf8')), ('u', None, (ch * k).encode('utf8'))])
        out.append([('t', None, (ch * k).encode('utf8')), ('u', None, b'w' * ((6 * M) // 10))])
        out.append([('t', None, (ch * max(1, (M + w) // w)).encode('utf8'))])
        out.append([('t%d' % i, None, (ch * max(1, ((3 * M) // 10) // w)).encode('utf8')) for i in range(4)])
    return out, hdr_t, hdr_f


def judge_mp(obs, L, M, fields, total, longest=0, count=None):
    if obs['hang']:
        return 'hang', 'step horizon exceeded'
    if obs.get('escaped'):
        return 'escaped', f'exception escaped: {obs["escaped"]}'
    code, seen = obs['code'], obs['seen']
    if L is not None and total > L:
        if code != 413:
            return 'limit-not-enforced', f'{total}-byte multipart body, limit {L}: status {code}'
        if count is not None and count(obs['pos']) > L + M:
            return 'over-consumed', f'{count(obs["pos"])} bytes of the {total}-byte multipart body were taken from the stream before the 413 (limit {L} + buffer {M})'
        return None
    text_total = sum(len(d) for _, fn, d in fields if fn is None)
    cost = sum(len(refmp.cd(nm, fn)) + (len(d) if fn is None else 0) for nm, fn, d in fields)
    exp_forms = {nm: d.decode() for nm, fn, d in fields if fn is None}
    exp_files = {nm: d for nm, fn, d in fields if fn is not None}
    delivered = bool(seen.get('done'))
    if text_total > M:
        if delivered:
            return 'mp-text-not-refused', f'{text_total} bytes of form text with max_memfile_size={M} were delivered'
        return None
    if cost <= M:
        if not delivered or code != 200:
            return 'mp-not-delivered', f'form within the in-memory budget (cost {cost} <= {M}) not delivered: status {code}'
    if delivered:
        in_forms = sum(len(v) for v in (seen.get('forms') or {}).values() if isinstance(v, (str, bytes)))
        if in_forms > M:
            return 'mp-text-over-budget', f'request.forms holds {in_forms} characters of text with max_memfile_size={M}'
        # parts with an empty file name are not classified by the statement: only the budget above applies to them
        unclassified = {nm for nm, fn, _ in fields if fn == ''}
        got_forms = {k: v for k, v in (seen.get('forms') or {}).items() if k not in unclassified}
        got_files = {k: v for k, v in (seen.get('files') or {}).items() if k not in unclassified}
        exp_files = {k: v for k, v in exp_files.items() if k not in unclassified}
        if got_forms != exp_forms or got_files != exp_files:
            return 'mp-wrong-content', (f'delivered forms/files differ: forms '
                                        f'{ {k: len(v) for k, v in (seen.get("forms") or {}).items()} } files '
                                        f'{ {k: len(v) for k, v in (seen.get("files") or {}).items()} }')
        if total > M and seen.get('kind') != 'file':
            return 'not-spooled', f'{total}-byte multipart body with threshold {M} held as {seen.get("kind")}'
    return None


def work_multipart(spec):
    _, L, M, _, tier = spec
    res = core.new_result()
    om = sut.load()
    c = res['counters']
    cases, hdr_t, hdr_f = mp_cases(M)
    runs = [(fields, b'\r\n') for fields in cases]
    # the bulk of the body behind the closing delimiter (an epilogue counts like every other byte of the body)
    big = b'\r\n' + b'E' * (3 * max(L or 0, M) + 50)
    runs += [([('t', None, b'z' * 2)], big), ([('f', 'n.bin', b'q' * 3)], big), ([], big)]
    for fields, epi in runs:
        parts = [(refmp.cd(nm, fn), d) for nm, fn, d in fields]
        body, _ = refmp.build(b'BND', parts, epilogue=epi)
        for framing, arg in (('cl', None), ('chunked', 7), ('chunked', M + 1)):
            raw, envkw, count, longest = encode(body, framing, arg)
            res['states'] += 1
            res['nontrivial'] += 1
            for onebyte in (False, True):
                ex = EnvExplorer(merge=False, horizon=40 * (len(raw) + 10))
                obs = ex.replay(lambda e: serve(om, e, L, M, 'multipart/form-data; boundary=BND', 'multipart', raw,
                                                envkw, onebyte=onebyte), [])
                res['execs'] += 1
                res['transitions'] += obs['calls']
                v = judge_mp(obs, L, M, fields, len(body), longest, count)
                seen = obs['seen']
                if v is None and seen.get('done') and any(fn and len(d) > M for _, fn, d in fields):
                    c['mp_file_intact'] += 1
                if v is None and not seen.get('done') and sum(len(d) for _, fn, d in fields if fn is None) > M:
                    c['mp_text_refused'] += 1
                if onebyte:
                    c['short_read_execs'] += 1
                res['outcomes'].add(f'multipart {framing} -> {obs.get("code")} delivered={bool(seen.get("done"))} '
                                    f'{"ok" if v is None else v[0]}')
                if v is not None:
                    core.add_violation(res, {'kind': 'multipart', 'L': L, 'M': M, 'fields': [[a, b, d] for a, b, d in fields],
                                             'framing': framing, 'arg': arg, 'onebyte': onebyte, 'epilogue': epi},
                                       f'multipart L={L} M={M} fields={[(a, b, len(d)) for a, b, d in fields]} {framing}: {v[1]}',
                                       sig=f'multipart:{v[0]}')
    core.add_sample(res, {'kind': 'multipart', 'max_body_size': L, 'max_memfile_size': M,
                          'field_lists': [[(a, b, len(d)) for a, b, d in f] for f in cases]})
    return res


SEQ_SIZES = [6, 3, 1, 9, 5, 0]


def sequence_once(om, L, M, seq):
    """one application serves the bodies of `seq` = [(size, framing)] one after the other; -> None or a description"""
    app = om.Ombott({'max_body_size': L, 'max_memfile_size': M})
    app.route('/p', 'POST', lambda: app.request.body.read())
    for k, (n, framing) in enumerate(seq):
        if framing == 'setup':
            # the application is re-configured between two requests: the limits in force are the new ones
            L = n
            app.setup({'max_body_size': L, 'max_memfile_size': M})
            continue
        payload = make_payload('raw', n)
        raw, envkw, _, _ = encode(payload, framing, 3)
        c = wsgi.call(app, wsgi.environ('POST', '/p', body=raw, ctype=CTYPE['raw'], **{k2: v for k2, v in envkw.items() if k2 != 'clen'},
                                        **({'clen': envkw['clen']} if envkw.get('clen') is not None else {})))
        want = 413 if n > L else 200
        if c.code != want or (want == 200 and c.body != payload):
            return (f'request #{k + 1} of {seq!r} on one application (max_body_size={L} at that point; (n, \'setup\') = app.setup() with max_body_size=n): a {n}-byte body ({framing}) answered {c.status}'
                    f'{"" if c.code != 200 else " with another body"}, expected {want}')
    return None


def work_sequence(spec):
    _, L, M, _, tier = spec
    res = core.new_result()
    om = sut.load()
    c = res['counters']
    import itertools
    items = [(n, f) for n in SEQ_SIZES for f in ('cl', 'chunked')] + [(2, 'setup'), (8, 'setup')]
    for seq in itertools.product(items, repeat=3 if tier == 'quick' else 4):
        res['states'] += 1
        res['transitions'] += len(seq)
        res['execs'] += len(seq)
        c['sequence_requests'] += len(seq)
        res['nontrivial'] += 1
        bad = sequence_once(om, L, M, list(seq))
        res['outcomes'].add('sequence ok' if bad is None else 'sequence BAD')
        if bad:
            core.add_violation(res, {'kind': 'sequence', 'L': L, 'M': M, 'seq': [list(x) for x in seq]}, bad, sig='sequence')
    core.add_sample(res, {'kind': 'sequence', 'max_body_size': L, 'sizes': SEQ_SIZES, 'length': 3 if tier == 'quick' else 4, 'reconfigurations': 'app.setup(max_body_size=2 / 8) as a step of the sequence'})
    return res


def nospool_case(om, n, M, framing, mp):
    """the temporary file for bodies above the threshold cannot be created: such a body is not handed over in memory instead"""
    bm = sut.sub('request_pkg.body_mixin')
    real_tf = bm.TemporaryFile
    if mp:
        body, _ = refmp.build(b'BND', [(refmp.cd('f', 'n.bin'), b'x' * n)], epilogue=b'\r\n')
        ctype = 'multipart/form-data; boundary=BND'
    else:
        body, ctype = make_payload('raw', n), CTYPE['raw']
    app = om.Ombott({'max_memfile_size': M})
    seen = {}

    def h():
        b = app.request.body
        seen['kind'] = body_kind(b)
        seen['len'] = len(b.read())
        if mp:
            seen['files'] = {k: len(v.file.read()) for k, v in app.request.files.items()}
        return 'ok'
    app.route('/p', 'POST', h)

    def refuse(*a, **kw):
        raise OSError(30, 'Read-only file system')
    bm.TemporaryFile = refuse
    try:
        if framing == 'chunked':
            c = wsgi.call(app, wsgi.environ('POST', '/p', body=refmp.chunked_encode([body[i:i + 7] for i in range(0, len(body), 7)]), chunked=True, ctype=ctype))
        else:
            c = wsgi.call(app, wsgi.environ('POST', '/p', body=body, ctype=ctype))
    finally:
        bm.TemporaryFile = real_tf
    if len(body) > M and seen:
        return f'the handler was given the {len(body)}-byte body as {seen["kind"]} ({seen["len"]} bytes), status {c.status}'
    if len(body) <= M and (c.code != 200 or seen.get('len') != len(body)):
        return f'a {len(body)}-byte body within the threshold was answered {c.status} (handler saw {seen})'
    return None


def work_nospool(spec):
    res = core.new_result()
    om = sut.load()
    c = res['counters']
    for M in (4, 64, 1024):
        for n in (0, M - 1, M, M + 1, 2 * M, 50 * M):
            for framing in ('cl', 'chunked'):
                for mp in (False, True):
                    if n < 0:
                        continue
                    case = {'kind': 'nospool', 'n': n, 'M': M, 'L': None, 'framing': framing, 'mp': mp}
                    core.track(res, case)
                    bad = nospool_case(om, n, M, framing, mp)
                    res['states'] += 1
                    res['execs'] += 1
                    res['transitions'] += 1
                    res['nontrivial'] += 1
                    c['nospool_cases'] += 1
                    res['outcomes'].add('no spool file: ' + ('ok' if bad is None else 'BAD'))
                    if bad:
                        core.add_violation(res, case, f'{case}: {bad}', sig='nospool')
    core.untrack()
    core.add_sample(res, {'kind': 'nospool', 'thresholds': [4, 64, 1024]})
    return res


# ---- two multipart forms on two threads of one application (E-SCHED): the in-memory budget belongs to the form being read -------

HERE = __import__('os').path.abspath(__file__)
THREAD_FORMS = [([('a', 40), ('b', 40)], [('c', 6)]),            # (over the budget together: 413) + (small: 200)
                ([('a', 20), ('b', 20)], [('c', 50)]),            # both within the budget
                ([('a', 40), ('b', 40)], [('c', 30), ('d', 40)])]  # both over
THREAD_M = 100


def _form_body(fields, tag):
    from vf import refmp
    return refmp.build(b'BND', [(refmp.cd(n), (tag * sz)[:sz].encode()) for n, sz in fields], epilogue=b'\r\n')[0]


def _form_app(om):
    app = om.Ombott({'max_memfile_size': THREAD_M})
    app.route('/f', 'POST', lambda: repr(sorted((k, len(v)) for k, v in app.request.forms.items())))
    return app


def _post_form(app, body):
    return wsgi.call(app, wsgi.environ('POST', '/f', body=body, ctype='multipart/form-data; boundary=BND'))


def run_form_threads(om, fi, prefix, gran='line'):
    from vf.sched import Scheduler
    app = _form_app(om)
    bodies = [_form_body(f, t) for f, t in zip(THREAD_FORMS[fi], 'xy')]
    sp = _src_prefix()
    return Scheduler([lambda b=b: _post_form(app, b) for b in bodies], prefix, lambda fn: fn.startswith(sp) or fn == HERE, granularity=gran).run()


def solo_forms(fi):
    out = []
    for f, t in zip(THREAD_FORMS[fi], 'xy'):
        r = _post_form(_form_app(sut.load(fresh=True)), _form_body(f, t))
        out.append((r.code, r.body if r.code == 200 else b''))
    return out


def judge_form_threads(fi, x, solo):
    if x.hung:
        return 'threads:hang', 'a thread did not finish'
    for t, e in x.errors.items():
        return 'threads:error', f'thread {t} raised {type(e).__name__}: {e}'
    for t in (0, 1):
        r = x.results[t]
        got = (r.code, r.body if r.code == 200 else b'')
        if got != solo[t]:
            return 'threads:budget', (f'the form with the text fields (name, bytes) {THREAD_FORMS[fi][t]} was answered {got[0]} {got[1]!r}; '
                                      f'served alone it is answered {solo[t][0]} {solo[t][1]!r} (max_memfile_size={THREAD_M})')
    return None


def work_form_threads(spec):
    from vf.sched import explore
    _, fi, start, bound, fp = spec
    res = core.new_result()
    c = res['counters']
    solo = solo_forms(fi)
    gran = 'call' if bound >= 2 else 'line'       # two preemptions: scheduling points at function entries (source lines would be ~400 k schedules)
    for prefix, x in explore(lambda p: run_form_threads(sut.load(fresh=True), fi, p, gran), bound, base=(start,), first_points=fp):
        res['states'] += 1
        res['transitions'] += len(x.points)
        res['execs'] += 1
        c['schedules'] += 1
        if x.switches:
            res['nontrivial'] += 1
        v = judge_form_threads(fi, x, solo)
        res['outcomes'].add('form threads ' + ('ok' if v is None else v[0]))
        if v is not None:
            core.add_violation(res, {'kind': 'threads', 'forms': fi, 'choices': list(x.choices), 'gran': gran},
                               f'two multipart forms on two threads of one application, {x.switches} switches: {v[1]}', sig=v[0])
    sut.load(fresh=True)
    core.add_sample(res, {'kind': 'threads', 'forms': [list(map(list, f)) for f in THREAD_FORMS[fi]], 'solo_answers': [s[0] for s in solo], 'first_thread': start,
                          'preemption_bound': bound, 'schedules': c['schedules']})
    return res


def work(spec):
    if spec[0] == 'threads':
        return work_form_threads(spec)
    if spec[0] == 'sequence':
        return work_sequence(spec)
    if spec[0] == 'nospool':
        return work_nospool(spec)
    return work_plain(spec) if spec[0] == 'plain' else work_multipart(spec)


def replay(case):
    if case.get('kind') == 'threads':
        solo = solo_forms(case['forms'])
        x = run_form_threads(sut.load(fresh=True), case['forms'], case['choices'], case.get('gran', 'line'))
        v = judge_form_threads(case['forms'], x, solo)
        sut.load(fresh=True)
        return None if v is None else f'two multipart forms on two threads of one application under the schedule with {x.switches} switches: {v[1]}'
    om = sut.load()
    L, M = case['L'], case['M']
    if case['kind'] == 'sequence':
        return sequence_once(om, L, M, [tuple(x) for x in case['seq']])
    if case['kind'] == 'nospool':
        bad = nospool_case(om, case['n'], M, case['framing'], case['mp'])
        if bad is None:
            return None
        return (f'max_memfile_size={M}, the temporary file for larger bodies cannot be created (OSError); a {"multipart upload of" if case["mp"] else "raw body of"} '
                f'{case["n"]} bytes, {case["framing"]}: {bad}')
    if case['kind'] == 'plain':
        ct, n = case['ct'], case['n']
        payload = make_payload(ct, n)
        raw, envkw, count, longest = encode(payload, case['framing'], case['arg'])
        accessor = {'raw': 'raw', 'urlencoded': 'forms', 'json': 'json'}[ct]
        ex = EnvExplorer(merge=False, horizon=40 * (len(raw) + 10))
        obs = ex.replay(lambda e: serve(om, e, L, M, CTYPE[ct], accessor, raw, envkw, onebyte=case['onebyte'], via_copy=bool(case.get('via_copy'))),
                        case['choices'])
        v = judge_plain(obs, L, M, ct, n, payload, count, longest)
        if v is None:
            return None
        return (f'max_body_size={L} max_memfile_size={M} {ct} body of {n} bytes, framing {case["framing"]}'
                f'({case["arg"]}), read answers {case["choices"]}{" byte-at-a-time" if case["onebyte"] else ""}{" (the handler reads through request.copy())" if case.get("via_copy") else ""}: {v[1]}')
    fields = [(a, b, d) for a, b, d in case['fields']]
    parts = [(refmp.cd(nm, fn), d) for nm, fn, d in fields]
    body, _ = refmp.build(b'BND', parts, epilogue=case.get('epilogue', b'\r\n'))
    raw, envkw, count, longest = encode(body, case['framing'], case['arg'])
    ex = EnvExplorer(merge=False, horizon=40 * (len(raw) + 10))
    obs = ex.replay(lambda e: serve(om, e, L, M, 'multipart/form-data; boundary=BND', 'multipart', raw, envkw,
                                    onebyte=case['onebyte']), [])
    v = judge_mp(obs, L, M, fields, len(body), longest, count)
    if v is None:
        return None
    return (f'max_body_size={L} max_memfile_size={M} multipart fields {[(a, b, len(d)) for a, b, d in fields]} followed by an epilogue of '
            f'{len(case.get("epilogue", b"  "))} bytes, framing {case["framing"]}({case["arg"]}): {v[1]}')

MANIFEST['text'] += ' Request sequences on one application include app.setup() with other limits; uploads are read in interleaved pieces; a spool file that cannot be created must not turn into an in-memory body.'
MANIFEST['text'] += ' An E-SCHED layer parses two multipart forms on two threads of one application under every schedule with <= 1 preemption: each form is accepted or refused as it is when served alone.'
if 'E-SCHED' not in MANIFEST['engines']:
    MANIFEST['engines'] = list(MANIFEST['engines']) + ['E-SCHED']
MANIFEST['technique'] += '; stateless exploration of all two-thread schedules (preemption-bounded, source-line scheduling points) for the state the property could park on shared objects'
