"""C16 — static_file never serves a file outside its root.

Engine: E-ENUM.  A real directory tree with decoy files beside and above the root is created; every requested name
built from 1..k segments {names, '.', '..', '', sibling names, absolute prefixes} joined by {'/', '\\', '//'} with an
optional leading separator is passed to the real static_file for every root spelling.  The builtin open seen by
ombott.static_stream is replaced by a recorder.
Oracle (independent segment-stack normaliser, no os.path): every path handed to open() lies inside the root; status
200 only if the normalised location is a regular file inside the root, and then the served bytes are that file's;
everything else is 403 or 404.
"""
import itertools
import os
import shutil
import tempfile

from vf import core, sut

ID = 'C16'
TITLE = 'static_file never serves a file outside its root'
ENGINE = 'E-ENUM (bounded-exhaustive file names x root spellings on a real tree, open() recorded)'
RULE = ('states = distinct (root spelling, requested name) inputs; transitions = static_file calls; non-trivial = names '
        'whose normalised location leaves the root, or that contain "..", a backslash, an empty or an absolute segment')
ASSUMPTIONS = ['POSIX path semantics (backslash is an ordinary character)', 'symbolic links are outside "normalised location"',
               'the harness tree lives under a fresh temporary directory; the process cwd is that directory']
MANIFEST = {
    'engines': ['E-ENUM'],
    'technique': 'bounded-exhaustive enumeration of requested names (segments x separators x lead) for five root '
                 'spellings on a real tree with decoys; open() recorded; oracle = independent path normaliser',
    'text': 'Every name of up to 4 segments (root spellings 1-3: 3 segments in the quick tier) from a 14-segment universe with three separators '
            'and three leads, for five spellings of the root, is passed to the real static_file; each opened path must '
            'lie inside the root and 200 is allowed only for regular files inside it, with their exact bytes. Sibling directories that differ from the root only in letter case, and two nested roots in one process, are part of the tree. Roots spelled with parent references from a working directory below the served one, files beside the root whose names begin the root name, and conditional requests are covered.',
    'note': 'Bounds: <=4 segments, POSIX, no symlinks. Trusted: CPython os/stat, the reference normaliser in this file.',
}

SEGS = ['in.txt', 'sub', 's.txt', '.', '..', '', 'rootx', 'd.txt', 'root', 'root2', 'above.txt', '@T', '@TROOT',
        '..\\above.txt']
SEPS = ['/', '\\', '//']
LEADS = ['', '/', '\\']
ROOTS = ['@T/root', '@T/root/', 'root', './root/', 'rootx/../root',
         # the process works in a directory BELOW the served one: the root is spelled with parent references only
         'cd=root/sub;..', 'cd=root/sub;../', 'cd=root;.', 'cd=root/sub;./..',
         # the empty string as root (what os.path.dirname('app.py') gives): the working directory
         'cd=root;',
         # a root directory that does not exist (a per-user directory nobody created yet; a relative root after a chdir): nothing is
         # inside it - in particular not the files of the directory it would be in
         '@T/root/nouser', 'cd=rootx;static',
         # a root whose name ends in a backslash (an ordinary character on POSIX): a directory of its own, not the sibling without it
         '@T/root\\', 'root\\/']


def download_for(name, T):
    """the `download` argument of the call - a function of the requested name (replays pass the same): mostly absent, sometimes True,
    sometimes a file name of its own (it only names the attachment; decoys of that name exist outside the root)"""
    import zlib
    k = zlib.crc32(name.replace(T, '@T').encode('utf8', 'surrogatepass')) % 8
    return {0: True, 1: 'above.txt', 2: T + '/above.txt', 3: 'rootx/d.txt', 4: '../above.txt'}.get(k, False)


def root_and_cwd(spec, T):
    """-> (root argument, working directory) of a root spelling ('cd=<dir below T>;<root>' changes the directory first)"""
    if spec.startswith('cd='):
        d, _, r = spec[3:].partition(';')
        return r, os.path.join(T, d)
    return spec.replace('@T', T), T
FILES = {'root/in.txt': b'inside', 'root/sub/s.txt': b'sub-inside', 'rootx/d.txt': b'DECOY-x', 'root2/in.txt': b'DECOY-2',
         'above.txt': b'DECOY-above', 'root/root/in.txt': b'nested', 'root/..\\above.txt': b'backslash-name',
         # siblings of the root whose names differ from it only in letter case (the file system is case-sensitive)
         'ROOT/in.txt': b'DECOY-upper', 'Root/sub/s.txt': b'DECOY-capital',
         # files beside the root whose names are a beginning of the root's name
         'roo': b'DECOY-prefix', 'r': b'DECOY-r'}


def make_tree():
    T = tempfile.mkdtemp(prefix='c16.', dir=os.environ.get('VERIF_WORK') or None)
    T = os.path.realpath(T)
    for rel, data in FILES.items():
        p = os.path.join(T, rel)
        os.makedirs(os.path.dirname(p), exist_ok=True)
        with open(p, 'wb') as f:
            f.write(data)
    # a backup / deploy mirror OUTSIDE the root whose own path contains the root's complete absolute path
    m = os.path.join(T, 'mirror', T.lstrip('/'), 'root')
    os.makedirs(m, exist_ok=True)
    for fn in ('in.txt', 'old.txt'):
        with open(os.path.join(m, fn), 'wb') as f:
            f.write(b'DECOY-mirror')
    return T


def shards(tier, seed):
    out = []
    kmax = 3 if tier == 'quick' else 4
    for ri in range(len(ROOTS)):
        for si in range(len(SEGS)):
            k = 4 if (ri == 0 or (tier == 'thorough' and ri in (1, 4))) else 3
            out.append((ri, si, k, None))
    # two calls for one root on two threads, every schedule with <= 1 (thorough 2) preemptions at source-line granularity
    for pi in range(len(THREAD_PAIRS)):
        for rj in range(len(THREAD_ROOTS)):
            for start in (0, 1):
                out.append(('threads', pi, rj, start, 1 if tier == 'quick' or pi > 1 else 2))
    # two roots in ONE process, one nested in the other: names served through the outer root must not open the inner root up
    out.append(('nested', None, 3, None))
    # sibling directories that differ from the root only in letter case (all names up to 3 / 4 segments containing one)
    for ri in (0, 2, 4):
        out.append((ri, None, 3, 'ROOT'))
        out.append((ri, None, 3 if tier == 'quick' else 4, 'Root'))
    # files beside the root whose names are a beginning of the root's name
    for ri in (0, 2, 5):
        out.append((ri, None, 3, 'roo'))
        out.append((ri, None, 3, 'r'))
    # a mirror of the tree beside the root: '<T>/mirror/<T>/root/...' contains the root's absolute path without being inside it
    for ri in (0, 1, 2):
        out.append((ri, None, 3, 'mirror@TROOT'))
        out.append((ri, None, 3, 'mirror@T'))
    # characters that only LOOK like dots and slashes (fullwidth full stop, two-dot leader, fullwidth solidus): ordinary name characters
    for ri in (0, 2):
        for extra in ('\uff0e\uff0e', '\u2025', '\uff0e', '..\uff0fabove.txt', '\uff0f',
                      # percent-encoded spellings: ordinary name characters for static_file (decoding is the server's business)
                      '%2e%2e', '%2e.', '..%2fabove.txt', '%2f', '%252e%252e',
                      # path-parameter spellings (';' and what follows it belong to the name)
                      '..;', '..;v=1', ';', '.;', '..;/..;'):
            out.append((ri, None, 3, extra))
    # conditional requests (If-Modified-Since in the future): outside names stay 403 / 404, inside files answer 304
    for ri in (0, 2):
        for si in range(len(SEGS)):
            out.append((ri, si, 3, '@IMS'))
    # seed extension: one more segment spelling joins the universe (all names up to 3 segments containing it)
    extra = ['...', 'root/', '.\\', ' ', '%2e%2e', '..;'][seed % 6]
    out.append((0, None, 3, extra))
    return out


def bounds(tier, seed):
    return {'segments': SEGS, 'separators': SEPS, 'leads': LEADS, 'roots': ROOTS,
            'max_segments': '4 for root 0, 3 otherwise' if tier == 'quick' else '4 for roots 0, 1 and 4, 3 otherwise'}


FLOORS = {'schedules': 1000, 'not_modified_304': 20, 'nested_root_calls': 1000, 'outside': 1000, 'served_200': 50, 'denied_403': 1000, 'missing_404': 100}


# ---- independent normaliser ----------------------------------------------------------------------------------

def norm_abs(path, cwd):
    """Segment-stack normalisation of a POSIX path (relative ones against cwd) -> list of segments."""
    if not path.startswith('/'):
        path = cwd + '/' + path
    st = []
    for seg in path.split('/'):
        if seg in ('', '.'):
            continue
        if seg == '..':
            if st:
                st.pop()
            continue
        st.append(seg)
    return st


def ref_location(root, name, cwd):
    r = norm_abs(root, cwd)
    n = name.strip('/\\')                      # documented: leading/trailing separators of the name are ignored
    loc = norm_abs('/' + '/'.join(r) + '/' + n, cwd)
    inside = len(loc) > len(r) and loc[:len(r)] == r
    return r, loc, inside


NESTED_ROOTS = ['@T/root', '@T/root/sub', '@T/root/sub/']


def nested_calls(k=3):
    """(root, name) calls: everything through the outer root first, then through the roots nested in it"""
    segs = ['in.txt', 'sub', 's.txt', '.', '..', '', 'root', 'above.txt']
    names = []
    for n in range(1, k + 1):
        for t in itertools.product(segs, repeat=n):
            names.append('/'.join(t))
    for root in NESTED_ROOTS:
        for name in names:
            yield root, name


def run_nested(ss, om, T, upto=None):
    """replays the call sequence (up to and including index `upto`); returns the first problem as (index, root, name, text)"""
    opened = []
    real_open = open

    def rec_open(path, *a, **kw):
        opened.append(path)
        return real_open(path, *a, **kw)
    ss.open = rec_open
    filemap = {tuple(norm_abs(os.path.join(T, rel), T)): data for rel, data in FILES.items()}
    n = 0
    try:
        for i, (root0, name) in enumerate(nested_calls()):
            if upto is not None and i > upto:
                break
            root = root0.replace('@T', T)
            del opened[:]
            resp = ss.static_file(name, root)
            n += 1
            data = None
            if hasattr(resp.body, 'read'):
                data = resp.body.read()
                resp.body.close()
            r, loc, inside = ref_location(root, name, T)
            exp_file = filemap.get(tuple(loc)) if inside else None
            bad = None
            for p in opened:
                pl = norm_abs(p, T)
                if not (len(pl) > len(r) and pl[:len(r)] == r):
                    bad = f'opened {p.replace(T, "@T")!r}, outside the root {root0}'
            if bad is None and resp.status_code == 200 and (not inside or exp_file is None or data != exp_file):
                bad = f'200 with {data!r} for a location outside the root {root0} (or not its file)'
            if bad is None and resp.status_code in (403, 404) and exp_file is not None:
                bad = f'{resp.status_code} for an existing file inside {root0}'
            if bad:
                return n, (i, root0, name, bad)
        return n, None
    finally:
        try:
            del ss.open
        except AttributeError:
            pass


def work_nested(res):
    om = sut.load(fresh=True)
    ss = sut.sub('static_stream')
    T = make_tree()
    old_cwd = os.getcwd()
    os.chdir(T)
    try:
        om.request.__init__({'REQUEST_METHOD': 'GET', 'PATH_INFO': '/', 'wsgi.input': None})
        n, prob = run_nested(ss, om, T)
        res['states'] += n
        res['transitions'] += n
        res['execs'] += n
        res['counters']['nested_root_calls'] += n
        res['outcomes'].add('nested roots ok' if prob is None else 'nested roots ESCAPE')
        if prob:
            i, root0, name, bad = prob
            core.add_violation(res, {'nested_upto': i, 'root': root0, 'name': name},
                               f'call #{i} static_file({name!r}, {root0!r}) after the calls through the other roots: {bad}', sig='escape:nested-roots')
        core.add_sample(res, {'roots_in_one_process': NESTED_ROOTS, 'calls': n})
    finally:
        os.chdir(old_cwd)
        shutil.rmtree(T, ignore_errors=True)
        sut.load(fresh=True)
    return res


# ---- two threads inside static_file for ONE root (E-SCHED): the containment verdict belongs to the call that asked -------------

THREAD_PAIRS = [('in.txt', '../above.txt'), ('sub/s.txt', '../rootx/d.txt'), ('in.txt', 'sub/s.txt'), ('../above.txt', '../rootx/d.txt'),
                ('in.txt', '@T/above.txt'), ('nothing.txt', '../above.txt')]
THREAD_ROOTS = ['@T/root', 'root']


def run_threads(ss, T, root, pair, prefix, opened, om=None):
    from vf.sched import Scheduler
    real_open = open

    def rec_open(path, *a, **kw):
        import threading
        opened.append((threading.current_thread().name, path))
        return real_open(path, *a, **kw)
    ss.open = rec_open

    def prog(name):
        def run():
            sut.load().request.__init__({'REQUEST_METHOD': 'GET', 'PATH_INFO': '/', 'wsgi.input': None})      # the request of THIS thread
            r = ss.static_file(name.replace('@T', T), root.replace('@T', T))
            data = None
            if hasattr(r.body, 'read'):
                data = r.body.read()
                r.body.close()
            return r.status_code, data
        return run
    sp = os.path.join(os.path.realpath(sut.SRC), 'ombott') + os.sep
    try:
        return Scheduler([prog(pair[0]), prog(pair[1])], prefix, lambda fn: fn.startswith(sp)).run()
    finally:
        try:
            del ss.open
        except AttributeError:
            pass


def judge_threads(T, root, pair, x, opened):
    if x.hung:
        return 'threads:hang', 'a thread did not finish'
    for t, e in x.errors.items():
        return 'threads:error', f'thread {t} raised {type(e).__name__}: {e}'.replace(T, '@T')
    filemap = {tuple(norm_abs(os.path.join(T, rel), T)): data for rel, data in FILES.items()}
    r = norm_abs(root.replace('@T', T), T)
    for who, p in opened:
        pl = norm_abs(p, T)
        if not (len(pl) > len(r) and pl[:len(r)] == r):
            return 'threads:opened', f'{p.replace(T, "@T")!r} was opened, which is outside the root'
    for t in (0, 1):
        code, data = x.results[t]
        _, loc, inside = ref_location(root.replace('@T', T), pair[t].replace('@T', T), T)
        exp = filemap.get(tuple(loc)) if inside else None
        if code == 200 and (exp is None or data != exp):
            return 'threads:200', f'static_file({pair[t]!r}) answered 200 with {data!r}; its normalised location holds {exp!r} (inside={inside})'
        if code != 200 and exp is not None:
            return 'threads:denied', f'static_file({pair[t]!r}) answered {code} for a file inside the root'
        if code not in (200, 403, 404):
            return 'threads:status', f'static_file({pair[t]!r}) answered {code}'
    return None


def work_threads(spec):
    from vf.sched import explore
    _, pi, rj, start, bound = spec
    res = core.new_result()
    om = sut.load(fresh=True)
    ss = sut.sub('static_stream')
    T = make_tree()
    old_cwd = os.getcwd()
    os.chdir(T)
    c = res['counters']
    pair, root = THREAD_PAIRS[pi], THREAD_ROOTS[rj]
    try:
        om.request.__init__({'REQUEST_METHOD': 'GET', 'PATH_INFO': '/', 'wsgi.input': None})
        opened = []

        def run(p):
            del opened[:]
            sut.load(fresh=True)            # every schedule starts from a freshly imported framework: nothing remembered from the one before
            return run_threads(sut.sub('static_stream'), T, root, pair, p, opened)
        for prefix, x in explore(run, bound, base=(start,)):
            res['states'] += 1
            res['transitions'] += len(x.points)
            c['schedules'] += 1
            if x.switches:
                res['nontrivial'] += 1
            v = judge_threads(T, root, pair, x, opened)
            res['outcomes'].add(f'threads {pair} -> {"ok" if v is None else v[0]}')
            if v is not None:
                core.add_violation(res, {'kind': 'threads', 'pair': pi, 'root': rj, 'choices': list(x.choices)},
                                   f'static_file({pair[0]!r}) and static_file({pair[1]!r}) for the root {root!r} on two threads, {x.switches} switches: {v[1]}',
                                   sig=v[0])
        res['execs'] = res['states']
        core.add_sample(res, {'threads': list(pair), 'root': root, 'first_thread': start, 'preemption_bound': bound, 'schedules': c['schedules']})
    finally:
        os.chdir(old_cwd)
        shutil.rmtree(T, ignore_errors=True)
        sut.load(fresh=True)
    return res


def replay_threads(case):
    om = sut.load(fresh=True)
    ss = sut.sub('static_stream')
    T = make_tree()
    old_cwd = os.getcwd()
    os.chdir(T)
    pair, root = THREAD_PAIRS[case['pair']], THREAD_ROOTS[case['root']]
    try:
        om.request.__init__({'REQUEST_METHOD': 'GET', 'PATH_INFO': '/', 'wsgi.input': None})
        opened = []
        x = run_threads(ss, T, root, pair, case['choices'], opened)
        v = judge_threads(T, root, pair, x, opened)
        if v is None:
            return None
        return (f'static_file({pair[0]!r}) and static_file({pair[1]!r}) for the root {root!r} on two threads under the schedule with '
                f'{x.switches} switches: {v[1]}')
    finally:
        os.chdir(old_cwd)
        shutil.rmtree(T, ignore_errors=True)
        sut.load(fresh=True)


def work(spec):
    ri, si, k, extra = spec[:4]
    res = core.new_result()
    if ri == 'threads':
        return work_threads(spec)
    if ri == 'nested':
        return work_nested(res)
    om = sut.load()
    ss = sut.sub('static_stream')
    T = make_tree()
    old_cwd = os.getcwd()
    os.chdir(T)
    opened = []
    real_open = open

    def rec_open(path, *a, **kw):
        opened.append(path)
        return real_open(path, *a, **kw)
    ss.open = rec_open
    ims = extra == '@IMS'
    if ims:
        extra = None
    try:
        env0 = {'REQUEST_METHOD': 'GET', 'PATH_INFO': '/', 'wsgi.input': None}
        if ims:
            env0['HTTP_IF_MODIFIED_SINCE'] = 'Fri, 01 Jan 2100 00:00:00 GMT'
        om.request.__init__(env0)
        root, cwd = root_and_cwd(ROOTS[ri], T)
        os.chdir(cwd)
        segs = [s.replace('@TROOT', T + '/root').replace('@T', T) for s in SEGS]
        if extra is not None:
            extra = extra.replace('@TROOT', T + '/root').replace('@T', T)
            segs = segs + [extra]
        c = res['counters']
        filemap = {tuple(norm_abs(os.path.join(T, rel), T)): data for rel, data in FILES.items()}

        def names():
            for n in range(1, k + 1):
                firsts = [segs[si]] if si is not None else segs
                for first in firsts:
                    for rest in itertools.product(segs, repeat=n - 1):
                        if extra is not None and extra != first and extra not in rest:
                            continue
                        for seps in itertools.product(SEPS, repeat=n - 1):
                            body = first + ''.join(s + x for s, x in zip(seps, rest))
                            for lead in LEADS:
                                yield lead + body
        for name in names():
            res['states'] += 1
            res['transitions'] += 1
            case = {'root': ROOTS[ri], 'name': name.replace(T, '@T')}
            if ims:
                case['ims'] = True
            core.track(res, case)
            del opened[:]
            try:
                resp = ss.static_file(name, root, download=download_for(name, T))
            except Exception as e:   # noqa
                core.add_violation(res, case, f'static_file raised {type(e).__name__}: {e}', sig=f'raised:{type(e).__name__}')
                continue
            code = resp.status_code
            body = resp.body
            data = None
            if hasattr(body, 'read'):
                data = body.read()
                body.close()
            r, loc, inside = ref_location(root, name, cwd)
            exp_file = filemap.get(tuple(loc)) if inside else None
            bad = None
            for p in opened:
                pl = norm_abs(p, cwd)
                if not (len(pl) > len(r) and pl[:len(r)] == r):
                    bad = f'opened {p!r}, which is outside the root {"/" + "/".join(r)}'
            if bad is None:
                if code == 200:
                    if not inside:
                        bad = f'200 for a location outside the root: {"/" + "/".join(loc)}'
                    elif exp_file is None:
                        bad = f'200 for {"/" + "/".join(loc)}, which is not a regular file of the tree'
                    elif data != exp_file:
                        bad = f'served {data!r}, the file holds {exp_file!r}'
                elif code in (403, 404):
                    if exp_file is not None:
                        bad = f'{code} for the existing inside file {"/" + "/".join(loc)}'
                elif code == 304 and ims:
                    if exp_file is None:
                        bad = f'304 (If-Modified-Since) for {"/" + "/".join(loc)}, which is {"outside the root" if not inside else "not a regular file of the tree"}'
                    else:
                        c['not_modified_304'] += 1
                else:
                    bad = f'unexpected status {code}'
            if not inside:
                c['outside'] += 1
            if code == 200:
                c['served_200'] += 1
            elif code == 403:
                c['denied_403'] += 1
            elif code == 404:
                c['missing_404'] += 1
            if not inside or '..' in name or '\\' in name or '//' in name or T in name:
                res['nontrivial'] += 1
            res['outcomes'].add(f'{code} inside={inside} opened={len(opened)}')
            if bad:
                core.add_violation(res, case, f'root={ROOTS[ri]!r} name={case["name"]!r}: {bad}',
                                   sig='escape:' + ('opened' if 'opened' in bad else str(code)))
            elif res['states'] % 40000 == 1:
                core.add_sample(res, {'root': ROOTS[ri], 'name': case['name'], 'status': code, 'inside': inside})
        res['execs'] = res['states']
    finally:
        core.untrack()
        try:
            del ss.open
        except AttributeError:
            pass
        os.chdir(old_cwd)
        shutil.rmtree(T, ignore_errors=True)
    return res


def replay(case):
    if case.get('kind') == 'threads':
        return replay_threads(case)
    if 'nested_upto' in case:
        om = sut.load(fresh=True)
        ss = sut.sub('static_stream')
        T = make_tree()
        old_cwd = os.getcwd()
        os.chdir(T)
        try:
            om.request.__init__({'REQUEST_METHOD': 'GET', 'PATH_INFO': '/', 'wsgi.input': None})
            n, prob = run_nested(ss, om, T, case['nested_upto'])
            if prob is None:
                return None
            i, root0, name, bad = prob
            return (f'{i} static_file calls through the roots {NESTED_ROOTS[:NESTED_ROOTS.index(root0) + 1]} in one process, then '
                    f'static_file({name!r}, {root0!r}): {bad}')
        finally:
            os.chdir(old_cwd)
            shutil.rmtree(T, ignore_errors=True)
            sut.load(fresh=True)
    om = sut.load()
    ss = sut.sub('static_stream')
    T = make_tree()
    old_cwd = os.getcwd()
    os.chdir(T)
    opened = []
    real_open = open

    def rec_open(path, *a, **kw):
        opened.append(path)
        return real_open(path, *a, **kw)
    ss.open = rec_open
    try:
        env0 = {'REQUEST_METHOD': 'GET', 'PATH_INFO': '/', 'wsgi.input': None}
        if case.get('ims'):
            env0['HTTP_IF_MODIFIED_SINCE'] = 'Fri, 01 Jan 2100 00:00:00 GMT'
        om.request.__init__(env0)
        root, cwd = root_and_cwd(case['root'], T)
        os.chdir(cwd)
        name = case['name'].replace('@T', T)
        dl = download_for(name, T)
        dl = '' if dl is False else ', download=%r' % (dl.replace(T, '@T') if isinstance(dl, str) else dl)
        filemap = {tuple(norm_abs(os.path.join(T, rel), T)): data for rel, data in FILES.items()}
        try:
            resp = ss.static_file(name, root, download=download_for(name, T))
        except Exception as e:   # noqa
            return f'static_file({case["name"]!r}, {case["root"]!r}{dl}) raised {type(e).__name__}: {e}'
        code = resp.status_code
        data = None
        if hasattr(resp.body, 'read'):
            data = resp.body.read()
            resp.body.close()
        r, loc, inside = ref_location(root, name, cwd)
        exp_file = filemap.get(tuple(loc)) if inside else None
        for p in opened:
            pl = norm_abs(p, cwd)
            if not (len(pl) > len(r) and pl[:len(r)] == r):
                return f'static_file({case["name"]!r}, {case["root"]!r}{dl}) opened {p.replace(T, "@T")!r} outside the root'
        where = ('/' + '/'.join(loc)).replace(T, '@T')
        if code == 200 and (not inside or exp_file is None or data != exp_file):
            return (f'static_file({case["name"]!r}, {case["root"]!r}{dl}) answered 200 with {data!r}; normalised location '
                    f'{where} inside={inside} file={exp_file!r}')
        if code in (403, 404) and exp_file is not None:
            return f'static_file({case["name"]!r}, {case["root"]!r}{dl}) answered {code} for the inside file {where}'
        if code == 304 and case.get('ims'):
            if exp_file is None:
                return (f'static_file({case["name"]!r}, {case["root"]!r}{dl}) with If-Modified-Since in the future answered 304; normalised location '
                        f'{where} inside={inside} is not a file inside the root (403 / 404 expected)')
            return None
        if code not in (200, 403, 404):
            return f'unexpected status {code}'
        return None
    finally:
        try:
            del ss.open
        except AttributeError:
            pass
        os.chdir(old_cwd)
        shutil.rmtree(T, ignore_errors=True)

MANIFEST['text'] += " Missing root directories, path-parameter (';') spellings and the download argument (decoys of that name outside the root) are part of the enumeration (12 root spellings)."
MANIFEST['text'] += " An E-SCHED layer runs two static_file calls for one root on two threads (six name pairs, two root spellings) under every schedule with <= 1 preemption; a mirror tree whose path contains the root's absolute path is part of the decoys."
if 'E-SCHED' not in MANIFEST['engines']:
    MANIFEST['engines'] = list(MANIFEST['engines']) + ['E-SCHED']
MANIFEST['technique'] += '; stateless exploration of all two-thread schedules (preemption-bounded, source-line scheduling points) for the state the property could park on shared objects'
