"""C17 — Range and conditional requests describe exactly the bytes delivered.

Engine: E-ENUM.  Files of every length 0..12 (streaming buffer forced to 4 bytes by injecting a partial of the
real _file_iter_range) are requested through the default application with every Range header "bytes=" + up to k
tokens from {0,1,5,9,10,11,-,",",space,x,=}, other units and prefix junk, with If-Modified-Since before / equal /
after the modification time or garbage, by GET and HEAD; plus files around the default 1 MiB buffer.
Oracle (independent RFC 7233 first-range model): canonical satisfiable first range -> 206 with exactly that slice;
canonical unsatisfiable -> 416; other headers -> 416, a full 200, or a self-consistent 206 (equal to the model
when the header is in the grammar); every 206 has Content-Range, Content-Length and bytes describing one slice
of the file, no chunk larger than the buffer; no Range -> 200 with the true length; IMS >= mtime -> 304 without
body; HEAD -> same status and headers as GET, no body.
"""
import functools
import itertools
import os
import re
import shutil
import tempfile
from email.utils import formatdate

from vf import core, sut, wsgi

ID = 'C17'
TITLE = 'Range and conditional requests describe exactly the bytes delivered'
ENGINE = 'E-ENUM (file lengths x Range token strings x conditional dates x method, through the default application)'
RULE = ('states = distinct (file length, Range header, If-Modified-Since, method) requests; transitions = WSGI calls; '
        'non-trivial = requests whose Range header is present and not a plain in-bounds a-b')
ASSUMPTIONS = ['file mtime set by the harness to a whole second; process time zones from a list of five POSIX TZ strings',
               'a reversed or non-grammar Range may be answered 416 or ignored (200); RFC 7233 allows both readings',
               'only the first range of a multi-range request is served (as the statement says)']
MANIFEST = {
    'engines': ['E-ENUM'],
    'technique': 'bounded-exhaustive enumeration of Range header token strings x file lengths x conditional dates x '
                 'GET/HEAD through the real application, oracle = independent RFC 7233 first-range model + slice self-consistency',
    'text': 'Every Range header made of up to 4 (quick) / 5 (thorough) tokens, every file length 0..12 with a 4-byte '
            'streaming buffer, files around the 1 MiB buffer, twelve If-Modified-Since variants (three HTTP-date spellings) and both methods are '
            'served by the real static_file through the default application; status, Content-Range, Content-Length and '
            'the delivered chunks are compared with the file on disk and the reference range model. The same with a server that offers wsgi.file_wrapper, and with two answers of one application under way at the same time.',
    'note': 'Bounds: token alphabet of 11, <=5 tokens, lengths 0..12 and around 2^20. Trusted: CPython, email.utils date '
            'formatting, the reference range model in this file.',
}

TOKENS = ['0', '1', '5', '9', '10', '11', '-', ',', ' ', 'x', '=']
MTIME = 1_600_000_000
BUF = 4


@functools.lru_cache(maxsize=None)
def content(n):
    return (bytes((i * 31 + 7) % 256 for i in range(256 * 31)) * (n // (256 * 31) + 1))[:n]


ITEM = re.compile(r'^(?:(\d+)-(\d*)|-(\d+))$')


def ref_range(header, n):
    """-> (klass, slice) with klass in canonical|grammar|other and slice = (s, e_inclusive) | 'unsat' | None"""
    if not header.startswith('bytes='):
        return 'other', None
    spec = header[len('bytes='):]
    items = [x.strip(' \t') for x in spec.split(',')]
    nonempty = [x for x in items if x]
    if not nonempty:
        return 'other', None
    parsed = []
    for it in nonempty:
        m = ITEM.match(it)
        if not m:
            return 'other', None
        a, b, k = m.groups()
        if a is not None and b and int(b) < int(a):
            return 'other', None          # invalid byte-range-spec: the whole set is invalid
        parsed.append((a, b, k))
    canonical = spec == ','.join(nonempty)
    a, b, k = parsed[0]
    if k is not None:
        k = int(k)
        sl = 'unsat' if (k == 0 or n == 0) else (max(0, n - k), n - 1)
    else:
        a = int(a)
        if a >= n:
            sl = 'unsat'
        elif b:
            sl = (a, min(int(b), n - 1))
        else:
            sl = (a, n - 1)
    # 'list': not the canonical spelling, but the list rule of RFC 7230 section 7 (optional blanks around the commas) with a proper first
    # element - as legal as the canonical spelling, and to be answered alike; 'grammar': lists that begin with empty elements (recipients
    # may be lenient about them or not)
    first_ok = bool(spec.split(',')[0].strip(' \t'))
    return ('canonical' if canonical else 'list' if first_ok else 'grammar'), sl


def shards(tier, seed):
    k = 4 if tier == 'quick' else 5
    out = []
    for n in range(0, 13):
        for t0 in TOKENS:
            out.append(('tok', n, t0, k))
    out.append(('misc', None, None, None))
    out.append(('overlap', None, None, None))
    out.append(('nested', None, None, None))
    out.append(('tz', None, None, None))
    out.append(('rewrite', None, None, None))
    MB = 1 << 20
    for n in (MB - 1, MB, MB + 1, MB * 5 // 2):
        out.insert(0, ('big', n, None, None))
    # seed extension: one extra token, all strings with <= 3 tokens containing it
    out.append(('tokx', 5 + seed % 7, ['+', '_', '\t', '12', '-0', '00', '*', '/', 'bytes='][seed % 9], 3))
    return out


def bounds(tier, seed):
    return {'tokens': TOKENS, 'max_tokens': 4 if tier == 'quick' else 5, 'file_lengths': '0..12 (buffer 4) and 2^20-1, 2^20, 2^20+1, 2.5*2^20',
            'if_modified_since': ['absent', 'mtime-1', 'mtime', 'mtime+1', 'garbage'], 'process_time_zones': ZONES, 'methods': ['GET', 'HEAD']}


FLOORS = {'nested_subrequest': 50, 'overlapping_answers': 50, 'rewrite_probes': 50, 'tz_cases': 50, 'r206': 1000, 'r416': 1000, 'r304': 20, 'r200': 20, 'head_pairs': 100, 'multi_chunk_206': 50,
          'canonical_sat': 200, 'canonical_unsat': 100}


class Ctx:
    def __init__(self):
        self.om = sut.load()
        self.ss = sut.sub('static_stream')
        self.T = os.path.realpath(tempfile.mkdtemp(prefix='c17.', dir=os.environ.get('VERIF_WORK') or None))
        self.app = self.om.default_app()
        self.orig_iter = self.ss._file_iter_range
        root = self.T
        ss = self.ss
        if not getattr(self.app, '_c17_routes', False):
            self.app._c17_routes = True
            self.app._c17_root = [root]
            app = self.app

            def serve(name):
                return ss.static_file(name, app._c17_root[0])
            self.app.route('/c17/<name>', 'GET', serve)
            # the same file through a handler that first lets ANOTHER application serve a request of its own (a sub-request with
            # other Range / If-Modified-Since headers and another method)
            side = self.om.Ombott()
            side.route('/side', 'ANY', lambda: 'side answer')
            w = wsgi

            def serve_nested(name):
                w.call(side, w.environ('HEAD', '/side', headers={'Range': 'bytes=5-9', 'If-Modified-Since': 'Fri, 01 Jan 2100 00:00:00 GMT'}))
                return ss.static_file(name, app._c17_root[0])
            self.app.route('/c17n/<name>', 'GET', serve_nested)
        else:
            self.app._c17_root[0] = root
        self.made = {}

    mtime = MTIME

    def file(self, n):
        if n not in self.made:
            p = os.path.join(self.T, f'f{n}.bin')
            with open(p, 'wb') as f:
                f.write(content(n))
            self.made[n] = p
        os.utime(self.made[n], (self.mtime, self.mtime))
        return f'f{n}.bin'

    def small_buffer(self, on):
        self.ss._file_iter_range = functools.partial(self.orig_iter, maxread=BUF) if on else self.orig_iter

    def close(self):
        self.ss._file_iter_range = self.orig_iter
        shutil.rmtree(self.T, ignore_errors=True)

    def get(self, n, rng=None, ims=None, method='GET'):
        h = {}
        if rng is not None:
            h['Range'] = rng
        if ims is not None:
            h['If-Modified-Since'] = ims
        env = wsgi.environ(method, ('/c17n/' if self.nested else '/c17/') + self.file(n), headers=h)
        if self.file_wrapper:
            env['wsgi.file_wrapper'] = wsgi.FileWrapper        # the server offers its own way of sending files
        return wsgi.call(self.app, env)

    file_wrapper = False
    nested = False


IMS = ['absent', 'before', 'equal', 'after', 'garbage',
       # the other two HTTP-date spellings (RFC 7231 7.1.1.1) and the historic "; length=" suffix
       'equal-850', 'equal-asctime', 'equal-length', 'after-850', 'after-asctime', 'before-850', 'before-asctime',
       # a date far ahead of the server's clock (a client whose clock runs ahead; a file stamped in the future)
       'future']


def http_date(ts, form):
    import time as _t
    g = _t.gmtime(ts)
    if form == '850':
        return _t.strftime('%A, %d-%b-%y %H:%M:%S GMT', g)
    if form == 'asctime':
        return _t.strftime('%a %b ', g) + '%2d' % g.tm_mday + _t.strftime(' %H:%M:%S %Y', g)
    if form == 'length':
        return formatdate(ts, usegmt=True) + '; length=5'
    return formatdate(ts, usegmt=True)


def ims_value(kind, mtime=MTIME):
    if kind == 'absent':
        return None
    if kind == 'garbage':
        return 'yesterday-ish'
    if kind == 'future':
        return 'Fri, 01 Jan 2100 00:00:00 GMT'
    rel, _, form = kind.partition('-')
    return http_date(mtime + {'before': -1, 'equal': 0, 'after': 1}[rel], form)


ZONES = ['CET-1CEST,M3.5.0,M10.5.0/3', 'EST5EDT,M3.2.0,M11.1.0', 'IST-5:30', 'NZST-12NZDT,M9.5.0,M4.1.0/3', 'UTC0']
SEASONS = {'july': 1625140800, 'january': 1610712000, 'epoch': 0, 'day-before-epoch': -86400, 'year-2039': 2177452800}     # (checkouts and reproducible archives carry mtime 0)


def judge(c, n, rng, ims_kind, method, buf):
    """c: wsgi.Call.  Returns None | (class, text)."""
    data = content(n)
    probs = wsgi.pep3333_problems(c, method)
    if probs:
        return 'wsgi', '; '.join(probs[:2])
    code = c.code
    body = c.body
    if ims_kind.startswith(('equal', 'after', 'future')):
        if code != 304 or body:
            return 'ims', f'If-Modified-Since {ims_kind} mtime answered {code} with {len(body)} body bytes, expected an empty 304'
        return None
    if code == 304:
        return 'ims', f'304 although If-Modified-Since is {ims_kind}'
    cl = c.header('Content-Length')
    cr = c.header('Content-Range')
    if rng is None:
        if code != 200 or cl != str(n) or (method == 'GET' and body != data):
            return 'plain', f'no Range: status {code}, Content-Length {cl}, {len(body)} bytes; the file has {n}'
        if cr is not None:
            return 'plain-with-content-range', f'no Range was asked for, the 200 answer for the whole file carries Content-Range {cr!r}'
        return None
    klass, sl = ref_range(rng, n)
    if code == 206:
        m = re.match(r'^bytes (\d+)-(\d+)/(\d+)$', cr or '')
        if not m:
            return 'cr-syntax', f'206 with Content-Range {cr!r}'
        s, e, tot = map(int, m.groups())
        if not (0 <= s <= e < n) or tot != n:
            return 'cr-bounds', f'206 Content-Range {cr!r} does not describe a slice of the {n}-byte file'
        if cl != str(e - s + 1):
            return 'cl-mismatch', f'206 Content-Range {cr!r} but Content-Length {cl}'
        if method == 'GET':
            if body != data[s:e + 1]:
                return 'bytes-mismatch', f'206 {cr!r} delivered {body!r}, the file slice is {data[s:e + 1]!r}'
            if any(len(ch) > buf for ch in c.chunks):
                return 'chunk-size', f'a delivered chunk has {max(len(ch) for ch in c.chunks)} bytes, buffer is {buf}'
        if klass in ('canonical', 'list', 'grammar'):
            if sl == 'unsat' or sl is None:
                return 'served-unsat', f'206 {cr!r} for the unsatisfiable first range of {rng!r} (length {n})'
            if (s, e) != sl:
                return 'wrong-slice', f'206 {cr!r} for {rng!r} on {n} bytes; RFC 7233 first range is {sl[0]}-{sl[1]}'
        return None
    if code == 416:
        if body and method == 'HEAD':
            return 'wsgi', 'body on HEAD'
        if klass in ('canonical', 'list') and sl not in ('unsat', None):
            return 'refused-sat', f'416 for the satisfiable range {rng!r} on a {n}-byte file (expected {sl[0]}-{sl[1]})'
        return None
    if code == 200:
        if klass in ('canonical', 'list'):
            return 'range-ignored', f'200 for the legal range {rng!r}'
        if cl != str(n) or (method == 'GET' and body != data):
            return 'plain', f'Range ignored but the 200 is not the whole file (Content-Length {cl}, {len(body)} bytes)'
        return None
    return 'status', f'unexpected status {c.status} for Range {rng!r}'


def judge_bytes(c, data, rng, method):
    """consistency of one answer with the bytes `data` that are on disk (used by the rewrite layer)"""
    n = len(data)
    probs = wsgi.pep3333_problems(c, method)
    if probs:
        return 'wsgi', probs[0]
    cl = c.header('Content-Length')
    if c.code == 200:
        if cl != str(n) or (method == 'GET' and c.body != data):
            return 'stale-200', f'200 with Content-Length {cl} and {len(c.body)} bytes; the file now holds {n} bytes'
        return None
    if c.code == 206:
        m = re.match(r'^bytes (\d+)-(\d+)/(\d+)$', c.header('Content-Range') or '')
        if not m:
            return 'cr-syntax', f'Content-Range {c.header("Content-Range")!r}'
        s, e, tot = map(int, m.groups())
        if tot != n or not (0 <= s <= e < n) or cl != str(e - s + 1) or (method == 'GET' and c.body != data[s:e + 1]):
            return 'stale-206', (f'206 {c.header("Content-Range")!r} Content-Length {cl} body {c.body!r}; the file now holds {n} bytes '
                                 f'{data!r}')
        klass, sl = ref_range(rng, n)
        if sl in ('unsat', None) or (s, e) != sl:
            return 'wrong-slice', f'206 {c.header("Content-Range")!r} for {rng!r} on the {n}-byte file; expected {sl}'
        return None
    if c.code == 416:
        klass, sl = ref_range(rng, n) if rng else ('other', None)
        if klass in ('canonical', 'list') and sl not in ('unsat', None):
            return 'refused-sat', f'416 for {rng!r}, satisfiable on the current {n}-byte file'
        return None
    return 'status', f'unexpected status {c.status}'


def hdrs_for_compare(c):
    return sorted((k, v) for k, v in (c.headers or []) if k.lower() != 'date')


def one(res, ctx, n, rng, ims_kind, buf, with_head, extra=None):
    c = res['counters']
    case = {'n': n, 'range': rng, 'ims': ims_kind, 'buf': buf}
    if extra:
        case.update(extra)
    core.track(res, case)
    g = ctx.get(n, rng, ims_value(ims_kind, ctx.mtime), 'GET')
    res['states'] += 1
    res['transitions'] += 1
    v = judge(g, n, rng, ims_kind, 'GET', buf)
    code = g.code
    c['r%s' % code] += 1
    if code == 206 and len(g.chunks) > 1:
        c['multi_chunk_206'] += 1
    if rng is not None:
        klass, sl = ref_range(rng, n)
        if klass == 'canonical':
            c['canonical_unsat' if sl == 'unsat' else 'canonical_sat'] += 1
        if not (klass == 'canonical' and sl != 'unsat' and ',' not in rng):
            res['nontrivial'] += 1
    res['outcomes'].add(f'{code} {"ok" if v is None else v[0]}')
    if v is None and with_head:
        h = ctx.get(n, rng, ims_value(ims_kind, ctx.mtime), 'HEAD')
        res['transitions'] += 1
        c['head_pairs'] += 1
        v = judge(h, n, rng, ims_kind, 'HEAD', buf)
        if v is None and (h.status != g.status or hdrs_for_compare(h) != hdrs_for_compare(g) or h.body):
            v = ('head-differs', f'HEAD gives {h.status} {hdrs_for_compare(h)} body={h.body!r}; GET gives {g.status} {hdrs_for_compare(g)}')
        if v is not None:
            v = ('head:' + v[0], 'HEAD: ' + v[1])
    if v is not None:
        core.add_violation(res, dict(case, head=with_head), f'{case}: {v[1]}', sig=v[0])
    return v


def overlap_once(ctx, n, rng_a, rng_b, after):
    """Two answers are under way at the same time (an event-loop or threaded server): A's first `after` chunks are sent,
    then B is sent completely and closed, then the rest of A.  -> None or a description of what went wrong with A."""
    name = ctx.file(n)
    data = content(n)

    def start(rng):
        box = {}

        def sr(status, headers, exc_info=None):
            box['status'], box['headers'] = status, dict(headers)
            return lambda d: None
        h = {'Range': rng} if rng else {}
        it = ctx.app(wsgi.environ('GET', '/c17/' + name, headers=h), sr)
        return box, it
    a_box, a_it = start(rng_a)
    a_iter = iter(a_it)
    got = []
    try:
        for _ in range(after):
            got.append(next(a_iter))
    except StopIteration:
        pass
    b_box, b_it = start(rng_b)
    b_body = b''.join(b_it)
    if hasattr(b_it, 'close'):
        b_it.close()
    for chunk in a_iter:
        got.append(chunk)
    if hasattr(a_it, 'close'):
        a_it.close()
    body = b''.join(got)
    cl = a_box['headers'].get('Content-Length')
    klass, sl = ref_range(rng_a, n) if rng_a else (None, None)
    want = data[sl[0]:sl[1] + 1] if (rng_a and sl not in (None, 'unsat')) else data
    if cl != str(len(body)) or body != want:
        return (f'{n}-byte file: answer A (Range {rng_a!r}, {a_box.get("status")}, Content-Length {cl}) was interrupted after {after} chunk(s) by a complete '
                f'answer B (Range {rng_b!r}) on the same application; A then delivered {len(body)} bytes {body[:20]!r}..., expected {len(want)} bytes')
    return None


def work_overlap(res, ctx):
    ctx.small_buffer(True)
    c = res['counters']
    for n in (9, 12):
        for rng_a in ('bytes=0-8', 'bytes=2-', None):
            for rng_b in ('bytes=0-3', 'bytes=1-7', None):
                for after in (0, 1, 2):
                    res['states'] += 1
                    res['transitions'] += 2
                    res['nontrivial'] += 1
                    c['overlapping_answers'] += 1
                    bad = overlap_once(ctx, n, rng_a, rng_b, after)
                    res['outcomes'].add('overlap ' + ('ok' if bad is None else 'BAD'))
                    if bad:
                        core.add_violation(res, {'overlap': [n, rng_a, rng_b, after]}, bad, sig='overlap')
    core.add_sample(res, {'overlapping_answers': c['overlapping_answers']})


def work(spec):
    kind, n, t0, k = spec
    res = core.new_result()
    ctx = Ctx()
    try:
        if kind in ('tok', 'tokx'):
            ctx.small_buffer(True)
            alpha = TOKENS if kind == 'tok' else TOKENS + [t0]
            i = 0
            for m in range(0, k):
                for rest in itertools.product(alpha, repeat=m):
                    if kind == 'tok':
                        toks = (t0,) + rest
                    else:
                        if m == 0:
                            toks = (t0,)
                        else:
                            toks = rest
                            if t0 not in toks:
                                continue
                    rng = 'bytes=' + ''.join(toks)
                    i += 1
                    one(res, ctx, n, rng, 'absent', BUF, with_head=(len(toks) <= 3))
                    if i % 25000 == 2:
                        core.add_sample(res, {'file_length': n, 'Range': rng})
        elif kind == 'misc':
            ctx.small_buffer(True)
            rngs = [None, 'bytes=0-3', 'bytes=2-', 'bytes=-3', 'bytes=20-', 'items=0-3', '0-3', 'bytes', 'bytes=',
                    'Bytes=0-3', ' bytes=0-3', 'xbytes=0-3', 'bytes=0-3,bytes=5-6', 'bytes=0-0,-1', 'bytes=-', 'bytes=--1',
                    'bytes=1-2-3', 'bytes=0x1-5', 'bytes=1e0-5', 'bytes=٣-5', 'bytes=0-99999999999999999999']
            for n in range(0, 13):
                for rng in rngs:
                    for ik in IMS:
                        one(res, ctx, n, rng, ik, BUF, with_head=True)
            # the same on a server that offers wsgi.file_wrapper
            ctx.file_wrapper = True
            for n in range(0, 13):
                for rng in rngs:
                    for ik in IMS[:5]:
                        one(res, ctx, n, rng, ik, BUF, with_head=True, extra={'fw': True})
            ctx.file_wrapper = False
            core.add_sample(res, {'misc_ranges': rngs, 'ims': list(IMS), 'with_and_without_wsgi.file_wrapper': True})
        elif kind == 'nested':
            ctx.small_buffer(True)
            ctx.nested = True
            for nn in (9, 12):
                for rng in (None, 'bytes=0-3', 'bytes=2-', 'bytes=-4', 'bytes=20-29', 'bytes=5-9', 'bytes=0-0,2-3', 'bytes=11-'):
                    for ik in ('absent', 'equal', 'before', 'future'):
                        one(res, ctx, nn, rng, ik, BUF, True, extra={'nested': True})
                        res['counters']['nested_subrequest'] += 1
            ctx.nested = False
            core.add_sample(res, {'handler_makes_a_sub_request_to_another_application_first': res['counters']['nested_subrequest']})
        elif kind == 'overlap':
            work_overlap(res, ctx)
        elif kind == 'rewrite':
            # one file name, rewritten with other lengths while its modification time (whole second) stays the same:
            # every answer must describe the bytes that are on disk NOW
            ctx.small_buffer(True)
            name = 'rw.bin'
            p = os.path.join(ctx.T, name)
            for step, n in enumerate([5, 9, 3, 12, 0, 7, 7, 11]):
                data = bytes(((i + step) * 37 + 11) % 256 for i in range(n))
                with open(p, 'wb') as f:
                    f.write(data)
                os.utime(p, ns=(MTIME * 10 ** 9 + step * 10 ** 7, MTIME * 10 ** 9 + step * 10 ** 7))
                for rng in (None, 'bytes=0-', 'bytes=-2', 'bytes=2-20', 'bytes=1-1', 'bytes=8-'):
                    for method in ('GET', 'HEAD'):
                        h = {'Range': rng} if rng else {}
                        c = wsgi.call(ctx.app, wsgi.environ(method, '/c17/' + name, headers=h))
                        res['states'] += 1
                        res['transitions'] += 1
                        res['counters']['rewrite_probes'] += 1
                        bad = judge_bytes(c, data, rng, method)
                        res['outcomes'].add(f'rewrite {c.code} {"ok" if bad is None else bad[0]}')
                        if bad:
                            core.add_violation(res, {'rewrite_step': step, 'range': rng, 'method': method},
                                               f'file rewritten {step} times within one second (now {n} bytes), {method} Range={rng!r}: {bad[1]}',
                                               sig='rewrite:' + bad[0])
            core.add_sample(res, {'rewrite_lengths': [5, 9, 3, 12, 0, 7, 7, 11]})
        elif kind == 'tz':
            # the server process may run in any time zone: conditional requests must not depend on it
            import time
            ctx.small_buffer(True)
            old = os.environ.get('TZ')
            try:
                for zone in ZONES:
                    os.environ['TZ'] = zone
                    time.tzset()
                    for season, mt in SEASONS.items():
                        ctx.mtime = mt
                        for n in (0, 5):
                            for ik in IMS:
                                v = one(res, ctx, n, None, ik, BUF, with_head=True, extra={'zone': zone, 'mtime': mt})
                                res['counters']['tz_cases'] += 1
            finally:
                if old is None:
                    os.environ.pop('TZ', None)
                else:
                    os.environ['TZ'] = old
                time.tzset()
                ctx.mtime = MTIME
            core.add_sample(res, {'zones': ZONES, 'mtimes': SEASONS})
        else:   # big files, default buffer
            ctx.small_buffer(False)
            MB = 1 << 20
            for n in (n,):
                for rng in (None, 'bytes=0-', 'bytes=1-', f'bytes=0-{MB - 1}', f'bytes=0-{MB}', f'bytes={MB - 1}-{MB}',
                            f'bytes=-{MB + 1}', f'bytes={n - 1}-', f'bytes={n}-', 'bytes=5-4', f'bytes=3-{3 * MB}'):
                    one(res, ctx, n, rng, 'absent', MB, with_head=True)
            core.add_sample(res, {'big_file_lengths': [MB - 1, MB, MB + 1, MB * 5 // 2]})
    finally:
        core.untrack()
        ctx.close()
    res['execs'] = res['transitions']
    return res


def replay_rewrite(case):
    ctx = Ctx()
    try:
        ctx.small_buffer(True)
        name = 'rw.bin'
        p = os.path.join(ctx.T, name)
        for step, n in enumerate([5, 9, 3, 12, 0, 7, 7, 11]):
            data = bytes(((i + step) * 37 + 11) % 256 for i in range(n))
            with open(p, 'wb') as f:
                f.write(data)
            os.utime(p, ns=(MTIME * 10 ** 9 + step * 10 ** 7, MTIME * 10 ** 9 + step * 10 ** 7))
            for rng in (None, 'bytes=0-', 'bytes=-2', 'bytes=2-20', 'bytes=1-1', 'bytes=8-'):
                for method in ('GET', 'HEAD'):
                    h = {'Range': rng} if rng else {}
                    c = wsgi.call(ctx.app, wsgi.environ(method, '/c17/' + name, headers=h))
                    if step == case['rewrite_step'] and rng == case['range'] and method == case['method']:
                        bad = judge_bytes(c, data, rng, method)
                        if bad is None:
                            return None
                        return (f'one file rewritten {step} times with other lengths inside the same modification-time second and served after '
                                f'each rewrite; now {n} bytes, {method} Range={rng!r}: {bad[1]}')
        return None
    finally:
        ctx.close()


def replay(case):
    import time
    if 'rewrite_step' in case:
        return replay_rewrite(case)
    ctx = Ctx()
    old = os.environ.get('TZ')
    try:
        if case.get('zone'):
            os.environ['TZ'] = case['zone']
            time.tzset()
            ctx.mtime = case['mtime']
        if 'overlap' in case:
            ctx.small_buffer(True)
            return overlap_once(ctx, *case['overlap'])
        buf = case['buf']
        ctx.small_buffer(buf == BUF)
        ctx.file_wrapper = bool(case.get('fw'))
        ctx.nested = bool(case.get('nested'))
        n, rng, ik = case['n'], case['range'], case['ims']
        g = ctx.get(n, rng, ims_value(ik, ctx.mtime), 'GET')
        v = judge(g, n, rng, ik, 'GET', buf)
        if v is None and case.get('head'):
            h = ctx.get(n, rng, ims_value(ik, ctx.mtime), 'HEAD')
            v = judge(h, n, rng, ik, 'HEAD', buf)
            if v is None and (h.status != g.status or hdrs_for_compare(h) != hdrs_for_compare(g) or h.body):
                v = ('head-differs', f'HEAD gives {h.status} {hdrs_for_compare(h)} body={h.body!r}; GET gives {g.status} {hdrs_for_compare(g)}')
        if v is None:
            return None
        z = f' (process TZ={case["zone"]}, mtime={formatdate(case["mtime"], usegmt=True)})' if case.get('zone') else ''
        fw = ' (the server offers wsgi.file_wrapper)' if case.get('fw') else ''
        ne = ' (the handler lets another application serve a HEAD sub-request with Range bytes=5-9 and a future If-Modified-Since before it calls static_file)' if case.get('nested') else ''
        return f'{n}-byte file, Range={rng!r}, If-Modified-Since={ik}{z}{fw}{ne}: {v[1]}'
    finally:
        if case.get('zone'):
            if old is None:
                os.environ.pop('TZ', None)
            else:
                os.environ['TZ'] = old
            time.tzset()
        ctx.close()

MANIFEST['text'] += ' Modification times at and before the epoch and in the future, and a date far ahead of the clock, are part of the conditional layer.'
MANIFEST['text'] += ' Lists with blanks around their commas are answered like their canonical spelling; a handler that lets another application serve a sub-request before static_file is a layer of its own.'
