"""C05 — chunked transfer decoding is exact and rejects every truncation.

Engine: E-ENUM over encodings x E-ENV over read fragmentation.  For every payload (bytes 1..n), every partition
into chunks, size spelling, chunk extension, trailer, final CRLF and buffer size, the legal encoding is fed to the
real decoder through a stream whose every read may be answered short (all answer sequences, state merging).
Then every strict prefix and every single-byte substitution of every framing byte is explored the same way.
Oracle: legal encoding (size lines fitting the buffer) -> body == payload; prefix ending before the end of the
zero-size chunk line -> client error; chunk data not followed by CRLF -> client error; any other corruption ->
some body or a client error, never another exception or a hang.  A WSGI layer confirms 200 + payload / 400.
"""
import itertools

from vf import core, sut, wsgi
from vf.env import EnvExplorer, ChoiceStream, Horizon

ID = 'C05'
TITLE = 'Chunked transfer decoding is exact and rejects every truncation'
ENGINE = 'E-ENUM (encodings, prefixes, framing corruptions) x E-ENV (all read-answer sequences, state merging)'
RULE = ('one state per (encoding variant, buffer size) input; executions = complete decodes of the real code, one per '
        'explored read-answer sequence; non-trivial = executions with a short read, a truncation or a corruption')
ASSUMPTIONS = [
    'a size line (digits, extension, CRLF) longer than max_memfile_size may be rejected (the stated bound); the check '
    'then accepts either the exact payload or a client error',
    'the stream answers read(k) with 1..min(k, available) bytes, b"" only at end of data, and never raises',
    'client error at component level = an exception derived from ombott RequestError; at WSGI level = status 400',
]
MANIFEST = {
    'engines': ['E-ENUM', 'E-ENV'],
    'technique': 'bounded-exhaustive enumeration of chunked encodings, all their strict prefixes and all single-byte '
                 'framing corruptions, each decoded by the real code under every read-answer sequence (state merging)',
    'text': 'All payloads up to the bound, all partitions, spellings, extensions, trailers and buffer sizes are encoded '
            'by an independent encoder and decoded by the real code under every short-read pattern; every strict '
            'prefix must be rejected until the terminating chunk line is complete, a corrupted CRLF after chunk data '
            'must be rejected, and every other single-byte framing corruption must give a body or a client error. An accepted corruption must present the whole payload, or the chunks before a damaged size line that reads as zero.',
    'note': 'Bounds: payload <= 4 bytes (quick) / 5, and 6 without corruptions (thorough) in all partitions plus 10/26-byte chunks for hex '
            'letters; substitutes from a 9-byte alphabet. Trusted: CPython, the reference encoder, frame-local merging.',
}

CRLF = b'\r\n'
SUBST = [b'0', b'1', b'g', b';', b'\r', b'\n', b' ', b'-', b'\xff']
EXTS = [b'', b';x', b';x=y', b';x="a;b"']
TRAILERS = [b'', b'T: v\r\n']


def partitions(n):
    if n == 0:
        yield ()
        return
    for cuts in itertools.product([0, 1], repeat=n - 1):
        sizes = []
        cur = 1
        for c in cuts:
            if c:
                sizes.append(cur)
                cur = 1
            else:
                cur += 1
        sizes.append(cur)
        yield tuple(sizes)


def encode(payload, sizes, fmt, ext, trailer, final_crlf):
    """Independent encoder.  Returns (raw, framing_positions, crlf_after_data_positions, zero_line_end,
    longest_size_line)."""
    out = bytearray()
    framing = []
    after_data = []
    p = 0
    longest = 0
    for s in sizes:
        line = (fmt % s).encode() + ext + CRLF
        longest = max(longest, len(line))
        framing.extend(range(len(out), len(out) + len(line)))
        out += line
        out += payload[p:p + s]
        p += s
        after_data.extend([len(out), len(out) + 1])
        framing.extend([len(out), len(out) + 1])
        out += CRLF
    line = b'0' + ext + CRLF
    longest = max(longest, len(line))
    framing.extend(range(len(out), len(out) + len(line)))
    out += line
    zero_end = len(out)
    out += trailer
    if final_crlf:
        out += CRLF
    return bytes(out), framing, after_data, zero_end, longest


def variants(tier, n, wide=False):
    """(sizes, fmt, ext, trailer, final, corrupt?) for a payload of n bytes.  Corruptions are enumerated for the
    variants without trailer and with the final CRLF (bytes after the zero-size chunk line are never framing)."""
    big = n >= 10
    fmts = ['%x', '0%x', '%X'] if not big else ['%x', '%X', '00%x']
    if wide:
        fmts = fmts + ['%017x']      # (1*HEXDIG: any number of leading zeros; only where the size line fits the buffer)
    parts = list(partitions(n)) if not big else [(n,), (n - 1, 1)]
    for sizes in parts:
        for i, fmt in enumerate(fmts):
            for j, ext in enumerate(EXTS):
                for k, tr in enumerate(TRAILERS):
                    for fin in (True, False):
                        corrupt = (not tr) and fin
                        if tier == 'quick':
                            if n >= 3 and (i + j) % 2:
                                continue   # quick: half of the spelling x extension product for larger payloads
                            if corrupt and (n >= 4 or (len(sizes) > 1 and i > 0)):
                                corrupt = False
                        elif corrupt and (n >= 6 or (n >= 5 and i > 0)):
                            corrupt = False
                        if big and j in (1, 2):
                            continue
                        if fmt == '%017x' and (j or k or n > 2 or not fin):
                            continue   # the long spelling: plain framing, short payloads
                        yield sizes, fmt, ext, tr, fin, corrupt


def shards(tier, seed):
    ns = [0, 1, 2, 3, 4] if tier == 'quick' else [0, 1, 2, 3, 4, 5]
    big = [10] if tier == 'quick' else [10, 26]
    bs = [1, 2, 3, 4, 8, 64] if tier == 'quick' else [1, 2, 3, 4, 5, 8, 11, 64]
    out = []
    for n in ns + big:
        for B in bs:
            if n >= 10 and B < 4 and tier == 'quick':
                continue
            out.append(('comp', n, B))
    for n in ([2, 3] if tier == 'quick' else [2, 4, 5]):
        for B in (4, 64):
            out.append(('wsgi', n, B))
    # seed extension: one more buffer size for two payload lengths
    out.append(('comp', 3, 6 + seed % 5))
    out.append(('comp', 10, 12 + seed % 7))
    if tier == 'thorough':
        out.append(('comp', 6, 3))
        out.append(('comp', 6, 64))
    out.sort(key=lambda t: -(t[1] if t[1] < 10 else 4))
    out = [('hist', 2, 8), ('hist', 2, 64)] + ([('hist', 3, 8)] if tier == 'thorough' else []) + out
    # the same requests carrying a Content-Length header besides Transfer-Encoding: chunked
    out += [('hist+cl', 2, 8)] + [('comp+cl', n, B) for n in ((2,) if tier == 'quick' else (1, 2, 3, 4)) for B in (2, 4, 64)] + [('comp+cl', 3, 64)] + [('wsgi+cl', 3, 4), ('wsgi+cl', 2, 64)]
    # long bodies: very many chunks in one body (nothing in the decoder may add up over the chunks of one request)
    for nchunks, B in ([(300, 4), (3000, 4), (3000, 102400)] if tier == 'quick' else [(3000, 1), (3000, 4), (12000, 64), (36000, 102400)]):
        out.append(('long', nchunks, B))
    # chunked bodies looked at through the form / JSON accessors (they read the decoded body into memory up to max_memfile_size):
    # the whole value or a client error, never the beginning of it
    out.append(('form', 16 if tier == 'quick' else 24, None))
    out += [('mp', B, None) for B in (8, 64, 102400)]
    return [t + (tier,) for t in out]


def bounds(tier, seed):
    s = shards(tier, seed)
    s = [t for t in s if not t[0].startswith('hist') and t[0] not in ('form', 'mp')]
    return {'history_layer': 'all ordered pairs (thorough: triples over a smaller menu) of requests from a menu of legal '
                             'encodings, all their truncations and some corruptions, decoded one after the other in '
                             'one process',
            'payload_lengths': sorted({t[1] for t in s}), 'buffer_sizes': sorted({t[2] for t in s}),
            'extensions': [e.decode() for e in EXTS], 'trailers': [t.decode() for t in TRAILERS],
            'substitutes': [repr(x) for x in SUBST], 'fragmentation': 'all read-answer sequences (state merging); for the 10/26-byte chunks only the legal '
                             'encodings are fragmented (answers to reads of more than 6 bytes limited to all/1/2/all-1), '
                             'their prefixes/corruptions use full reads'}


FLOORS = {'long_bodies': 12, 'hist_sequences': 500, 'legal_ok': 100, 'short_crlf_read': 10, 'chunk_gt_buffer': 10, 'prefix_rejected': 100,
          'crlf_corruption_rejected': 50, 'crlf_insertion_rejected': 50, 'corruption_accepted': 10, 'corruption_rejected': 50, 'wsgi_execs': 20}


def _src_prefix():
    import os
    return os.path.join(os.path.realpath(sut.SRC), 'ombott') + os.sep


def payload_of(n):
    return bytes(range(1, n + 1))


def cl_for(raw, B):
    """a chunked request may carry a Content-Length as well (a proxy that re-chunked, a server that passes both on): the transfer
    coding decides, whatever the number says.  A pure function of the case, so that a replay builds the same request."""
    if not CL_MODE[0]:
        return None
    return ['0', str(len(raw)), str(len(raw) // 2)][(len(raw) + B) % 3]


CL_MODE = [False]       # set by the '+cl' shards (and by the replay of their cases)
CTYPE_MODE = [None]     # set by the 'mp' shard: the chunked body is a multipart form (it is parsed while it is decoded)


def run_component(om, errs, ex, raw, B, short=True):
    stream = ChoiceStream(ex, raw, _src_prefix(), short=short, menu_cap=6 if len(raw) > 30 else None)
    env = wsgi.environ('POST', '/', input=stream, clen=cl_for(raw, B), chunked=True, ctype=CTYPE_MODE[0])
    req = om.Request(env, config={'max_memfile_size': B})
    obs = {'hang': False, 'err': None, 'client_error': False, 'content': None}
    try:
        obs['content'] = req.body.read()
    except Horizon:
        obs['hang'] = True
    except errs.RequestError as e:
        obs['client_error'] = True
        obs['err'] = type(e).__name__
        # a handler that catches the refusal and asks again gets the same answer: what is left in the stream is not a body
        try:
            obs['second_look'] = req.body.read()
        except Horizon:
            obs['hang'] = True
        except errs.RequestError:
            # ... and so does a copy of the request taken after the refusal (an after-request hook that logs the body)
            try:
                obs['second_look'] = req.copy().body.read()
                obs['via_copy'] = True
            except Horizon:
                obs['hang'] = True
            except errs.RequestError:
                pass
            except Exception as e2:   # noqa
                obs['err'] = f'access through request.copy(): {type(e2).__name__}: {e2}'
                obs['client_error'] = False
        except Exception as e2:   # noqa
            obs['err'] = f'second access: {type(e2).__name__}: {e2}'
            obs['client_error'] = False
    except Exception as e:   # noqa
        obs['err'] = f'{type(e).__name__}: {e}'
    obs['calls'] = list(stream.calls)
    return obs


def on_worker_thread(fn):
    """requests are served by worker threads, not by the thread that imported the framework and built the application"""
    import threading
    box = {}

    def body():
        try:
            box['r'] = fn()
        except BaseException as e:   # noqa  (Horizon, watchdog)
            box['e'] = e
    t = threading.Thread(target=body)
    t.start()
    t.join()
    if 'e' in box:
        raise box['e']
    return box['r']


def run_wsgi(om, errs, ex, raw, B, short=True):
    stream = ChoiceStream(ex, raw, _src_prefix(), short=short, menu_cap=6 if len(raw) > 30 else None)
    if len(raw) % 2:
        app = om.Ombott({'max_memfile_size': B})
    else:
        app = om.Ombott()                        # (configured after construction, as applications created at import time are)
        app.setup({'max_memfile_size': B})

    def h():
        b1 = app.request.body.read()
        # the handler re-labels the body (a signature check done, now let the JSON / form accessors see it) and looks again
        app.request['CONTENT_TYPE'] = 'application/x-retyped'
        b2 = app.request.body.read()
        return b1 if b1 == b2 else b'SECOND-LOOK-DIFFERS:' + b1 + b'|' + b2
    app.route('/p', 'POST', h)
    env = wsgi.environ('POST', '/p', input=stream, clen=cl_for(raw, B), chunked=True, ctype=CTYPE_MODE[0])
    obs = {'hang': False, 'err': None, 'client_error': False, 'content': None}
    try:
        c = on_worker_thread(lambda: wsgi.call(app, env))
        if c.escaped is not None:
            obs['err'] = repr(c.escaped)
        elif c.code == 200:
            obs['content'] = c.body
        elif c.code is not None and 400 <= c.code < 500:
            obs['client_error'] = True
            obs['err'] = c.status
        else:
            obs['err'] = f'status {c.status}'
    except Horizon:
        obs['hang'] = True
    obs['calls'] = list(stream.calls)
    return obs


def lenient_zero(line):
    """does this size line (without its CRLF) denote the number zero under the most lenient numeric reading?"""
    try:
        return int(line.split(b';')[0].strip(), 16) == 0
    except ValueError:
        return False


def ref_decode(raw):
    """Independent lenient decoder: the payload when `raw` starts with an encoding that is well-formed under the most lenient reading of a
    size line (everything up to the next CRLF; the size is its leading run of hex digits - what follows, an extension or junk, is not
    looked at), each chunk's data followed by CRLF, ended by a size of zero; else None.  A damaged encoding may by coincidence be such an
    encoding of ANOTHER payload (a substituted byte turns the line end into part of an 'extension' that swallows the data, and the next
    chunk header is then taken for data): presenting that payload is acceptance, not a shifted body."""
    import re as _re
    pos, out = 0, b''
    while True:
        end = raw.find(b'\r\n', pos)
        if end < 0:
            return None
        m = _re.match(rb'[0-9A-Fa-f]+', raw[pos:end])
        if not m:
            return None
        n = int(m.group(0), 16)
        pos = end + 2
        if n == 0:
            return out
        if raw[pos + n:pos + n + 2] != b'\r\n' or len(raw) < pos + n + 2:
            return None
        out += raw[pos:pos + n]
        pos += n + 2


def size_lines(sizes, fmt, ext):
    """(start, end-before-CRLF, index) of every size line of the encoding, the zero-size line included"""
    out = []
    pos = 0
    for k, s in enumerate(list(sizes) + [0]):
        line = ((fmt % s).encode() if k < len(sizes) else b'0') + ext
        out.append((pos, pos + len(line), k))
        pos += len(line) + 2 + (s + 2 if k < len(sizes) else 0)
    return out


def judge(mode, obs, payload, fits, allowed=None):
    """mode: 'legal' | 'must-reject' | 'any'.  Returns None or (class, text)."""
    if obs['hang']:
        return 'hang', 'decoder exceeded the step horizon'
    if obs['err'] and not obs['client_error']:
        return 'server-fault', f'not a client error: {obs["err"]}'
    if obs.get('second_look') is not None:
        how = 'request.copy().body (copy taken after the refusal)' if obs.get('via_copy') else 'a second access to request.body'
        return 'accepted-on-second-access', f'refused with {obs["err"]} at first; {how} then presented {obs["second_look"]!r} as the body'
    if mode == 'legal':
        if obs['client_error']:
            if fits:
                return 'legal-rejected', f'legal encoding rejected with {obs["err"]}'
            return None
        if obs['content'] != payload:
            return 'wrong-body', f'body {obs["content"]!r} != payload {payload!r}'
        return None
    if mode == 'must-reject':
        if not obs['client_error']:
            return 'accepted', f'accepted with body {obs["content"]!r} instead of a client error'
        return None
    if allowed is not None and not obs['client_error'] and obs['content'] not in allowed:
        # framing garbage may be accepted, but only with the whole payload, or - when the damaged size line reads as
        # zero - with the chunks before it: anything else is a partial / shifted body presented as complete
        return 'partial-accepted', (f'accepted with body {obs["content"]!r}; the payload is {payload!r} and no size line '
                                    f'reading as zero ends the body there')
    return None


def explore_case(res, om, errs, runner, kind, raw, B, mode, payload, fits, case_extra, horizon, short=True, allowed=None):
    if core.saturated(res):
        return set()
    memo = res.setdefault('_memo', {})
    mk = (raw, mode, fits, short, tuple(allowed) if allowed is not None else None)
    if mk in memo:           # the same bytes under the same expectation were already explored in this shard
        res['counters']['deduplicated_cases'] += 1
        return memo[mk]
    ex = EnvExplorer(merge=True, horizon=horizon, max_execs=1500)
    verdicts = memo[mk] = set()
    for choices, obs in ex.explore(lambda e: runner(om, errs, e, raw, B, short)):
        if core.saturated(res):
            break
        res['execs'] += 1
        res['transitions'] += len(obs['calls'])
        c = res['counters']
        if any(choices):
            c['short_read_execs'] += 1
        if any(r == 2 and k == 1 for r, k in obs['calls']):
            c['short_crlf_read'] += 1
        v = judge(mode, obs, payload, fits, allowed)
        verdicts.add('client_error' if obs['client_error'] else 'body')
        if v is not None:
            case = {'kind': kind, 'raw': raw, 'B': B, 'mode': mode, 'payload': payload, 'fits': fits,
                    'choices': choices, 'short': short, 'with_cl': CL_MODE[0], 'ctype': CTYPE_MODE[0]}
            if allowed is not None:
                case['allowed'] = list(allowed)
            case.update(case_extra)
            core.add_violation(res, case, f'{case_extra} B={B} raw={raw!r} answers={choices}: {v[1]}',
                               sig=f'{kind}:{mode}:{v[0]}')
            res['outcomes'].add(f'{mode}: {v[0]}')
        else:
            res['outcomes'].add(f'{mode}: {"rejected " + str(obs["err"]) if obs["client_error"] else "body"}')
    if case_extra['what'] != 'legal':
        res['nontrivial'] += 1
    if ex.capped:
        res['caps'].append(f'cap hit {case_extra}')
    return verdicts


def hist_menu(depth):
    """(raw, mode, payload, what) request bodies for the history layer."""
    menu = []
    encs = [encode(payload_of(2), (2,), '%x', b'', b'', True),
            encode(payload_of(2), (1, 1), '0%x', b';x', b'', True),
            encode(payload_of(18), (17, 1), '%x', b'', b'T: v\r\n', True)]
    for ei, (raw, framing, after_data, zero_end, longest) in enumerate(encs):
        payload = payload_of([2, 2, 18][ei])
        menu.append((raw, 'legal', payload, f'legal#{ei}'))
        cuts = range(len(raw)) if depth == 2 else [1, 2, zero_end - 1]
        for p in cuts:
            if p < zero_end:
                menu.append((raw[:p], 'must-reject', payload, f'prefix#{ei}@{p}'))
        for pos in (after_data[:2] if depth == 2 else after_data[:1]):
            menu.append((raw[:pos] + b'x' + raw[pos + 1:], 'must-reject', payload, f'crlf-corrupt#{ei}@{pos}'))
        menu.append((b'g' + raw[1:], 'any', payload, f'size-corrupt#{ei}'))
    return menu


def work_hist(spec):
    _, depth, B, tier = spec
    res = core.new_result()
    om = sut.load()
    errs = sut.sub('request_pkg.errors')
    menu = hist_menu(depth)
    c = res['counters']
    for seq in itertools.product(range(len(menu)), repeat=depth):
        obs_list = []
        for i in seq:
            raw, mode, payload, what = menu[i]
            ex = EnvExplorer(merge=False, horizon=20 * (len(raw) + 5))
            obs = ex.replay(lambda e: run_component(om, errs, e, raw, B, False), [])
            obs_list.append(obs)
        res['execs'] += 1
        res['transitions'] += depth
        c['hist_sequences'] += 1
        raw, mode, payload, what = menu[seq[-1]]
        v = judge(mode, obs_list[-1], payload, True)
        res['outcomes'].add(f'hist {mode}: {"ok" if v is None else v[0]}')
        if v is not None:
            # is it the history? the same request alone
            core.add_violation(res, {'kind': 'hist', 'with_cl': CL_MODE[0], 'B': B, 'seq': [[menu[i][0], menu[i][1], menu[i][2], menu[i][3]] for i in seq]},
                               f'after {[menu[i][3] for i in seq[:-1]]} the request {what} {raw!r}: {v[1]}',
                               sig=f'hist:{mode}:{v[0]}')
    res['states'] += len(menu) ** (depth - 1)
    res['nontrivial'] += c['hist_sequences']
    core.add_sample(res, {'kind': 'hist', 'depth': depth, 'menu': [m[3] for m in menu][:12], 'sequences': c['hist_sequences']})
    return res


def long_body(nchunks, variant):
    payload = bytes((i * 7 + 1) % 256 for i in range(nchunks * (1 if variant < 2 else 3)))
    step = 1 if variant < 2 else 3
    ext = [b'', b';ext=aaaaaaaaaaaaaaaa', b''][variant]
    raw = b''.join(b'%x%s\r\n%s\r\n' % (step, ext, payload[i:i + step]) for i in range(0, len(payload), step)) + b'0\r\n\r\n'
    return payload, raw


def long_fits(variant, B):
    """the decoder's stated bound: a size line (with its CRLF) is not longer than max_memfile_size"""
    return [3, 24, 3][variant] <= B


def work_long(spec):
    _, nchunks, B, tier = spec
    res = core.new_result()
    om = sut.load()
    errs = sut.sub('request_pkg.errors')
    for variant in (0, 1, 2):
        payload, raw = long_body(nchunks, variant)
        for runner, name in ((run_component, 'comp'), (run_wsgi, 'wsgi')):
            case = {'kind': 'long', 'runner': name, 'nchunks': nchunks, 'variant': variant, 'B': B}
            core.track(res, case, 120)
            ex = EnvExplorer(merge=False, horizon=40 * (len(raw) + 5))
            obs = ex.replay(lambda e: runner(om, errs, e, raw, B, False), [])
            res['states'] += 1
            res['execs'] += 1
            res['transitions'] += len(obs['calls'])
            res['nontrivial'] += 1
            res['counters']['long_bodies'] += 1
            v = judge('legal', obs, payload, long_fits(variant, B))
            res['outcomes'].add('long legal: ' + ('body' if v is None else v[0]))
            if v is not None:
                core.add_violation(res, case, f'{nchunks} chunks ({["1 byte each", "1 byte each with a 20-byte extension", "3 bytes each"][variant]}) '
                                              f'B={B} via {name}: {v[1][:160]}', sig=f'long:{v[0]}')
    core.untrack()
    core.add_sample(res, {'kind': 'long', 'chunks': nchunks, 'buffer': B})
    return res


def form_case(om, kindf, n, sizes, B, cut):
    """-> (problem or None, status): a chunked urlencoded form / JSON text of n bytes in chunks `sizes`, wire bytes cut after `cut`"""
    payload = (b'a=' + b'x' * (n - 2)) if kindf == 'forms' else (b'"' + b'x' * (n - 2) + b'"')
    raw = encode(payload, sizes, '%x', b'', b'', True)[0]
    whole = cut is None
    if not whole:
        raw = raw[:cut]
    app = om.Ombott({'max_memfile_size': B})

    def h():
        rq = app.request
        return repr(rq.forms.get('a') if kindf == 'forms' else rq.json)
    app.route('/f', 'POST', h)
    c = wsgi.call(app, wsgi.environ('POST', '/f', body=raw, clen=None, chunked=True,
                                    ctype='application/x-www-form-urlencoded' if kindf == 'forms' else 'application/json'))
    want = repr('x' * (n - 2)).encode()
    if c.escaped is not None or c.code is None or c.code >= 500:
        return f'status {c.status} {c.escaped!r}', c.status
    if c.code == 200:
        if not whole and cut < len(raw) + 0 and cut < encode(payload, sizes, '%x', b'', b'', True)[3]:
            return f'the encoding cut after {cut} bytes was accepted: request.{kindf} gave {c.body[:40]!r}', c.status
        if c.body != want:
            return f'request.{kindf} presented {c.body[:60]!r} ({len(c.body) - 2} characters) as the value; {n - 2} characters were sent', c.status
    elif not 400 <= c.code < 500:
        return f'status {c.status}', c.status
    return None, c.status


def work_form(spec):
    _, nmax, _, tier = spec
    res = core.new_result()
    om = sut.load()
    c = res['counters']
    for kindf in ('forms', 'json'):
        for n in range(3, nmax + 1):
            for sizes in ((n,), (1, n - 1), (n - 1, 1), (2, n - 2), (n // 2, n - n // 2)):
                for B in range(max(1, n - 3), n + 3):
                    for cut in [None] + ([n // 2, n + 2] if n % 4 == 0 else []):
                        case = {'kind': 'form', 'accessor': kindf, 'n': n, 'sizes': list(sizes), 'B': B, 'cut': cut}
                        core.track(res, case)
                        bad, status = form_case(om, kindf, n, sizes, B, cut)
                        res['states'] += 1
                        res['execs'] += 1
                        res['transitions'] += 1
                        c['form_accessor_cases'] += 1
                        if n > B:
                            res['nontrivial'] += 1
                        res['outcomes'].add(f'form accessor: {status}' if bad is None else 'form accessor: BAD')
                        if bad:
                            core.add_violation(res, case, f'{kindf} n={n} sizes={sizes} B={B} cut={cut}: {bad}', sig='form:' + bad[:16])
    core.untrack()
    core.add_sample(res, {'kind': 'form', 'accessors': ['forms', 'json'], 'max_len': nmax})
    return res


MP_PAYLOAD = b'--b\r\nContent-Disposition: form-data; name="a"\r\n\r\nv\r\n--b--\r\nepilogue-bytes'


def work_mp(spec):
    """a chunked multipart form whose closing delimiter ends in a chunk that is not the last one: the decoder still delivers every chunk
    and still refuses every truncation (the multipart scanner runs while the body is decoded)"""
    _, B, _, tier = spec
    res = core.new_result()
    om = sut.load()
    errs = sut.sub('request_pkg.errors')
    payload = MP_PAYLOAD
    L = len(payload)
    close_end = payload.index(b'--b--') + 5
    CTYPE_MODE[0] = 'multipart/form-data; boundary=b'
    try:
        for sizes in ((L,), (close_end, L - close_end), (close_end + 2, 7, L - close_end - 9), (10, close_end - 10, 3, L - close_end - 3), (close_end - 1, 1, L - close_end)):
            raw, framing, after_data, zero_end, longest = encode(payload, sizes, '%x', b'', b'', True)
            for runner, kind in ((run_component, 'comp'), (run_wsgi, 'wsgi')):
                horizon = 20 * (len(raw) + 5)
                explore_case(res, om, errs, runner, kind, raw, B, 'legal', payload, longest <= B, {'what': 'legal', 'sizes': list(sizes), 'fmt': '%x'}, horizon, short=False)
                res['counters']['multipart_chunked'] += 1
                for p in range(len(raw)):
                    mode = 'must-reject' if p < zero_end else 'legal'
                    explore_case(res, om, errs, runner, kind, raw[:p], B, mode, payload, longest <= B, {'what': 'prefix', 'cut': p}, horizon, short=False)
                    res['states'] += 1
    finally:
        CTYPE_MODE[0] = None
    core.untrack()
    core.add_sample(res, {'kind': 'mp', 'payload': payload, 'buffer': B})
    return res


def work(spec):
    CL_MODE[0] = spec[0].endswith('+cl')
    try:
        return _work((spec[0].replace('+cl', ''),) + tuple(spec[1:]))
    finally:
        CL_MODE[0] = False


def _work(spec):
    if spec[0] == 'hist':
        return work_hist(spec)
    if spec[0] == 'long':
        return work_long(spec)
    if spec[0] == 'form':
        return work_form(spec)
    if spec[0] == 'mp':
        return work_mp(spec)
    kind, n, B, tier = spec
    res = core.new_result()
    om = sut.load()
    errs = sut.sub('request_pkg.errors')
    runner = run_component if kind == 'comp' else run_wsgi
    payload = payload_of(n)
    if kind == 'wsgi':
        tier = 'quick'
    c = res['counters']
    nvar = 0
    for sizes, fmt, ext, tr, fin, corrupt in variants(tier, n, wide=B >= 32):
        raw, framing, after_data, zero_end, longest = encode(payload, sizes, fmt, ext, tr, fin)
        fits = longest <= B
        nvar += 1
        res['states'] += 1
        horizon = 20 * (len(raw) + 5)
        extra = {'what': 'legal', 'sizes': list(sizes), 'fmt': fmt}
        vs = explore_case(res, om, errs, runner, kind, raw, B, 'legal', payload, fits, extra, horizon)
        if 'body' in vs:
            c['legal_ok'] += 1
        if any(s > B for s in sizes):
            c['chunk_gt_buffer'] += 1
        if kind == 'wsgi':
            c['wsgi_execs'] += 1
        # every strict prefix
        for p in range(len(raw)):
            mode = 'must-reject' if p < zero_end else 'legal'
            extra = {'what': 'prefix', 'cut': p}
            vs = explore_case(res, om, errs, runner, kind, raw[:p], B, mode, payload, fits, extra, horizon,
                              short=n < 10)
            if mode == 'must-reject' and vs == {'client_error'}:
                c['prefix_rejected'] += 1
        if kind == 'wsgi' or not corrupt:
            continue
        # every single-byte substitution of every framing byte (up to the end of the zero-size chunk line)
        for pos in framing:
            for sb in SUBST:
                if raw[pos:pos + 1] == sb:
                    continue
                mut = raw[:pos] + sb + raw[pos + 1:]
                mode = 'must-reject' if pos in after_data else 'any'
                extra = {'what': 'subst', 'pos': pos, 'byte': sb}
                allowed = [payload]
                other = ref_decode(mut)
                if other is not None and other not in allowed:
                    allowed.append(other)          # the damaged bytes happen to be a well-formed encoding of another payload
                off = 0
                for (ls, le, k), s in zip(size_lines(sizes, fmt, ext), list(sizes) + [0]):
                    if ls <= pos < le and lenient_zero(mut[ls:le]):
                        allowed.append(payload[:off])
                    off += s
                vs = explore_case(res, om, errs, runner, kind, mut, B, mode, payload, fits, extra, horizon,
                                  short=n < 10, allowed=allowed)
                if pos in after_data:
                    if vs == {'client_error'}:
                        c['crlf_corruption_rejected'] += 1
                else:
                    if 'body' in vs:
                        c['corruption_accepted'] += 1
                    if 'client_error' in vs:
                        c['corruption_rejected'] += 1
        # one byte (or a short run of garbage) INSERTED between a chunk's data and its CRLF, or between that CR and LF: the data is then
        # not followed by CRLF.  (A line feed inserted before the LF leaves a correct CRLF and a damaged next size line: not judged.)
        for pos in after_data:
            is_lf = raw[pos:pos + 1] == b'\n'
            for sb in SUBST + [b';oops', b'\r\r', b' \t']:
                mut = raw[:pos] + sb + raw[pos:]
                mode = 'any' if (is_lf and sb == b'\n') else 'must-reject'
                extra = {'what': 'insert', 'pos': pos, 'byte': sb}
                other = ref_decode(mut)
                allowed = [payload] + ([other] if other is not None and other != payload else [])
                vs = explore_case(res, om, errs, runner, kind, mut, B, mode, payload, fits, extra, horizon, short=n < 10, allowed=allowed)
                if mode == 'must-reject' and vs == {'client_error'}:
                    c['crlf_insertion_rejected'] += 1
    res.pop('_memo', None)
    core.add_sample(res, {'kind': kind, 'payload_len': n, 'buffer': B, 'encoding_variants': nvar,
                          'example': encode(payload, next(iter(partitions(n))) if n < 10 else (n,), '%x', EXTS[3],
                                            TRAILERS[1], True)[0]})
    return res


def replay(case):
    CL_MODE[0] = bool(case.get('with_cl'))
    CTYPE_MODE[0] = case.get('ctype')
    try:
        return _replay(case)
    finally:
        CL_MODE[0] = False
        CTYPE_MODE[0] = None


def _replay(case):
    om = sut.load()
    errs = sut.sub('request_pkg.errors')
    if case['kind'] == 'long':
        payload, raw = long_body(case['nchunks'], case['variant'])
        runner = run_component if case['runner'] == 'comp' else run_wsgi
        ex = EnvExplorer(merge=False, horizon=40 * (len(raw) + 5))
        obs = ex.replay(lambda e: runner(om, errs, e, raw, case['B'], False), [])
        v = judge('legal', obs, payload, long_fits(case['variant'], case['B']))
        if v is None:
            return None
        return (f'{case["runner"]}: a legal chunked body of {case["nchunks"]} chunks (variant {case["variant"]}: '
                f'{["1 byte each", "1 byte each with a 20-byte extension", "3 bytes each"][case["variant"]]}; {len(raw)} bytes on the wire) with '
                f'max_memfile_size={case["B"]}: {v[1][:200]}')
    if case['kind'] == 'form':
        bad, status = form_case(om, case['accessor'], case['n'], tuple(case['sizes']), case['B'], case['cut'])
        if bad is None:
            return None
        return (f'a {"urlencoded form a=xx..." if case["accessor"] == "forms" else "JSON string"} of {case["n"]} bytes sent chunked (chunk sizes {case["sizes"]}'
                f'{"" if case["cut"] is None else ", wire bytes cut after " + str(case["cut"])}), max_memfile_size={case["B"]}, handler reads request.{case["accessor"]}: {bad}')
    if case['kind'] == 'hist':
        obs = None
        for raw, mode, payload, what in case['seq']:
            ex = EnvExplorer(merge=False, horizon=20 * (len(raw) + 5))
            obs = ex.replay(lambda e: run_component(om, errs, e, raw, case['B'], False), [])
        v = judge(mode, obs, payload, True)
        if v is None:
            return None
        return (f'hist: chunked requests decoded one after the other in one process '
                f'{[(w, r) for r, _, _, w in case["seq"]]}: the last one: {v[1]}')
    runner = run_component if case['kind'] == 'comp' else run_wsgi
    raw, B = case['raw'], case['B']
    ex = EnvExplorer(merge=False, horizon=20 * (len(raw) + 5))
    obs = ex.replay(lambda e: runner(om, errs, e, raw, B, case.get('short', True)), case['choices'])
    v = judge(case['mode'], obs, case['payload'], case['fits'], case.get('allowed'))
    if v is None:
        return None
    return (f'{case["kind"]}: chunked body {raw!r} ({case["what"]}; {"Content-Type " + case["ctype"] + "; " if case.get("ctype") else ""}Content-Length header {"absent" if cl_for(raw, B) is None else cl_for(raw, B)}) with max_memfile_size={B}, reads '
            f'{[r for r, _ in obs["calls"]]} answered with {[k for _, k in obs["calls"]]} bytes: {v[1]} '
            f'(payload {case["payload"]!r})')

MANIFEST['text'] += ' The same requests also carry a Content-Length header (own shards); sizes spelled with 17 digits, bodies of thousands of chunks, chunked multipart forms with all their truncations, and chunked forms / JSON read through the form accessors (whole value or client error) are layers of their own.'
MANIFEST['text'] += " Bytes inserted between a chunk's data and its CRLF must be refused; WSGI-level cases are served on a worker thread."
