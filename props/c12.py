"""C12 — malformed request bodies yield client errors, never server faults.

Engine: E-ENUM.  (a) every byte string over {-, B, CR, LF, ':', ';', '=', '"', a, 0xFF} up to length 4 (thorough 6) as
a multipart/form-data body with boundary B; (b) token-level mutations of three well-formed multipart bodies (each
token - delimiter, CRLF, header name, colon, value, parameter, quote, data - deleted, duplicated or replaced) and their
truncation at every offset; (c) Content-Type variants (no / empty / quoted / CR-containing boundary, mixed case);
(d) every string over {'{', '}', '[', ']', '"', a, ':', ',', 1, space, 0xFF} up to length 4 (thorough 5) as
application/json; (e) urlencoded strings over the C18 alphabet; each read through forms, files, json, params or
the raw body, under Content-Length (exact / short / long) and chunked framing, with two buffer sizes.
Oracle: status 2xx or 4xx; no traceback on wsgi.errors; nothing escapes Ombott.__call__; no hang (watchdog); every
delivered field value is followed by a delimiter in the body sent (never data cut off by the end of the body).
"""
import itertools

from vf import core, sut, wsgi, refmp

ID = 'C12'
TITLE = 'Malformed request bodies yield client errors, never server faults'
ENGINE = 'E-ENUM (byte strings / token mutations / content types x accessor x framing x buffer size through Ombott.__call__)'
RULE = ('states = distinct (body, content type, accessor, framing, buffer) requests; transitions = WSGI calls; non-trivial = '
        'requests answered with a 4xx or delivering at least one field')
ASSUMPTIONS = ['client error = status 4xx; success = 2xx; a 5xx, an escaped exception, output on wsgi.errors or a watchdog timeout is a server fault',
               'a non-numeric CONTENT_LENGTH is a header, not a body, and is not enumerated here']
MANIFEST = {
    'engines': ['E-ENUM'],
    'technique': 'bounded-exhaustive enumeration of malformed bodies (all short byte strings over a framing alphabet, all '
                 'single-token mutations and truncations of well-formed bodies, JSON / urlencoded strings) x accessor x framing '
                 'through the real application; invariant: 2xx/4xx only, no traceback, no hang, delivered fields complete',
    'text': 'Every byte string up to the length bound over a 10-symbol multipart alphabet, every single-token mutation and '
            'every truncation of three well-formed bodies, every short JSON and urlencoded string and a list of Content-Type '
            'variants is posted and read through forms / files / json / params / body under both framings.',
    'note': 'Bounds: multipart strings <=4 (thorough 6), JSON strings <=4 (5), token mutations of 3 bodies. Trusted: CPython, '
            'the delimiter search of the oracle.',
}

MP_ALPHA = [b'-', b'B', b'\r', b'\n', b':', b';', b'=', b'"', b'a', b'\xff']
JS_ALPHA = [b'{', b'}', b'[', b']', b'"', b'a', b':', b',', b'1', b' ', b'\xff']
QS_ALPHA = [b'a', b'=', b'&', b'+', b'%', b'4', b'\xff']
CT_MP = 'multipart/form-data; boundary=B'


def strings(alpha, n, first=None):
    for m in range(0, n + 1):
        for t in itertools.product(alpha, repeat=m):
            if first is not None and (not t or t[0] != first):
                continue
            yield b''.join(t)


GOOD = [
    [b'--BND', b'\r\n', b'Content-Disposition', b':', b' form-data', b';', b' name', b'=', b'"', b'a', b'"', b'\r\n',
     b'Content-Type', b':', b' text/plain', b';', b' charset', b'=', b'utf-8', b'\r\n', b'\r\n', b'value', b'\r\n',
     b'--BND', b'--', b'\r\n'],
    [b'--BND', b'\r\n', b'Content-Disposition', b':', b' form-data', b';', b' name', b'=', b'"', b'f', b'"', b';', b' filename', b'=', b'"', b'n.bin', b'"',
     b'\r\n', b'Content-Type', b':', b' text/plain', b'\r\n', b'\r\n', b'file\r\ndata', b'\r\n', b'--BND', b'\r\n',
     b'Content-Disposition', b':', b' form-data', b';', b' name', b'=', b'"', b't', b'"', b'\r\n', b'\r\n', b'x', b'\r\n', b'--BND', b'--', b'\r\n'],
    [b'\r\n', b'--BND', b'\r\n', b'content-disposition', b':', b'form-data', b';', b'name', b'=', b'a', b'\r\n', b'X-Other', b':', b' v', b'\r\n', b'\r\n',
     b'', b'\r\n', b'--BND', b'--'],
    # one name used by a text field, an upload and a text field again
    [b'--BND', b'\r\n', b'Content-Disposition: form-data; name="x"', b'\r\n', b'\r\n', b't1', b'\r\n',
     b'--BND', b'\r\n', b'Content-Disposition: form-data; name="x"; filename="u.bin"', b'\r\n', b'\r\n', b'u1', b'\r\n',
     b'--BND', b'\r\n', b'Content-Disposition: form-data; name="x"', b'\r\n', b'\r\n', b't2', b'\r\n',
     b'--BND', b'\r\n', b'Content-Disposition: form-data; name="x"; filename="v.bin"', b'\r\n', b'\r\n', b'u2', b'\r\n', b'--BND', b'--', b'\r\n'],
]
REPL = [b'\x00', b' a\x00b', b'\t', b'\xc3\xa9', b'', b'\r', b'\n', b'\r\n', b'--BND', b'--', b':', b';', b'=', b'"', b'\xff', b'X', b'--BND--', b'\r\n\r\n', b' ']
CTYPES = ['multipart/form-data', 'multipart/form-data; boundary=', 'multipart/form-data; boundary=""', 'multipart/form-data; boundary="BND"',
          'Multipart/Form-Data; boundary=BND', 'multipart/form-data; boundary=B\rD', 'multipart/form-data; boundary=BND; charset=utf-8',
          'multipart/form-data;boundary=BND', 'multipart/mixed; boundary=BND', 'multipart/form-data; Boundary=BND', 'multipart/',
          'multipart/form-data; boundary=' + 'x' * 300, 'application/json; charset=latin1', 'application/x-www-form-urlencoded; charset=utf-16',
          'text/plain', '', 'application/json', 'APPLICATION/JSON']


def shards(tier, seed):
    n = 4 if tier == 'quick' else 6
    out = []
    for a in MP_ALPHA:
        out.append(('mp', a, n))
    out.append(('mp', None, 0))
    for gi in range(len(GOOD)):
        for M in (8, 64, 102400):
            out.insert(0, ('mut', gi, M))
        out.append(('trunc', gi, None))
    out.append(('ctype', None, None))
    out.append(('thread', None, None))
    jn = 4 if tier == 'quick' else 5
    for a in JS_ALPHA:
        out.append(('json', a, jn))
    # documents nested far deeper than any parser recursion limit (still far below the in-memory threshold)
    out.append(('deep', None, 20000 if tier == 'quick' else 45000))
    out.append(('qs', None, 5 if tier == 'quick' else 6))
    # seed extension: another byte joins the multipart alphabet (all strings <= 3 containing it)
    out.append(('mpx', bytes([[0, 9, 32, 0x80, 0x5c, 0x27, 0x2d, 0xc3][seed % 8]]), 3))
    return out


def bounds(tier, seed):
    return {'multipart_alphabet': [repr(x) for x in MP_ALPHA], 'multipart_len': 4 if tier == 'quick' else 6,
            'json_alphabet': [repr(x) for x in JS_ALPHA], 'json_len': 4 if tier == 'quick' else 5, 'good_bodies': len(GOOD),
            'replacements': [repr(x) for x in REPL], 'content_types': CTYPES, 'accessors': ['forms', 'files', 'json', 'params', 'body'],
            'framing': ['content-length exact/short/long', 'chunked in pieces of 1,2,3,5,7,11,13 bytes', 'chunked encoding cut at every wire offset'], 'buffers': [8, 64, 102400]}


FLOORS = {'threaded_calls': 500, 'calls': 20000, 'client_errors': 5000, 'delivered_fields': 100, 'accepted': 1000}


PRELOOK = {'forms': 'json', 'body': 'forms', 'params': 'body', 'json': 'forms'}


def make_app(om, M):
    if M == 64:
        # configured after construction through setup() (the other applications get their configuration as a constructor argument)
        app = om.Ombott()
        app.setup({'max_memfile_size': M})
    elif M == 8:
        # this application maps the body errors to answers of its own (built with keyword arguments, as the constructor documents them)
        errs = sut.sub('request_pkg.errors')
        app = om.Ombott({'max_memfile_size': M, 'errors_map': {
            errs.RequestError: om.HTTPError(status=422, body='unprocessable request'),
            errs.BodySizeError: om.HTTPError(status=413, body='too large for this application'),
            errs.BodyParsingError: om.HTTPError(status=400, body='broken transfer coding')}})
    else:
        app = om.Ombott({'max_memfile_size': M})
    seen = {}

    def h(acc):
        rq = app.request
        seen.clear()
        pre = PRELOOK.get(acc) if M == 64 else None
        if pre:
            # "try one reading of the body, fall back to another": the handler of this application first looks through another
            # accessor and ignores the HTTP error it may get; whatever the second look answers must still be a client error or a result
            try:
                getattr(rq, pre)
            except om.HTTPError:
                seen['prelook_refused'] = pre
        if acc == 'forms':
            seen['fields'] = [(k, v) for k, v in rq.forms.items()]
        elif acc == 'files':
            out = []
            for k, v in rq.files.items():
                for u in (v if isinstance(v, list) else [v]):
                    out.append((k, u.file.read() if hasattr(u, 'file') else u))
            seen['fields'] = out
        elif acc == 'json':
            seen['json'] = rq.json
        elif acc == 'params':
            seen['fields'] = [(k, v) for k, v in rq.params.items()]
        else:
            seen['body'] = rq.body.read()
        return 'ok'
    app.route('/r/<acc>', 'POST', h)
    return app, seen


def flat_values(fields):
    for k, v in fields:
        for x in (v if isinstance(v, list) else [v]):
            if isinstance(x, str):
                yield k, x.encode('utf8')
            elif isinstance(x, bytes):
                yield k, x


def do_post(app, seen, body, ctype, acc, framing):
    if framing.startswith('chunked'):
        k = int(framing[7:] or 5)
        pieces = [body[i:i + k] for i in range(0, len(body), k)]
        env = wsgi.environ('POST', '/r/' + acc, body=refmp.chunked_encode(pieces), ctype=ctype, chunked=True)
    elif framing.startswith('cut'):
        # a chunked encoding (5-byte chunks) cut off after N bytes of the wire format
        pieces = [body[i:i + 5] for i in range(0, len(body), 5)]
        env = wsgi.environ('POST', '/r/' + acc, body=refmp.chunked_encode(pieces)[:int(framing[3:])], ctype=ctype, chunked=True)
    elif framing == 'cl':
        env = wsgi.environ('POST', '/r/' + acc, body=body, ctype=ctype)
    elif framing == 'cl-short':
        env = wsgi.environ('POST', '/r/' + acc, body=body, ctype=ctype, clen=max(0, len(body) - 2))
    else:
        env = wsgi.environ('POST', '/r/' + acc, body=body, ctype=ctype, clen=len(body) + 3)
    # API clients ask for JSON error reports: every third request (a function of the bytes sent) carries such an Accept header
    import zlib
    if zlib.crc32(body + framing.encode() + acc.encode()) % 3 == 0:
        env['HTTP_ACCEPT'] = 'application/json'
    seen.clear()
    return wsgi.call(app, env)


def judge(c, seen, body, boundary, framing):
    if c.escaped is not None:
        return 'escaped', f'exception escaped the framework: {c.escaped!r}'
    if c.code is None or not (200 <= c.code < 300 or 400 <= c.code < 500):
        tail = (c.errors.strip().splitlines() or [''])[-1]
        return f'status-{c.code}', f'status {c.status}; last line on wsgi.errors: {tail[:160]}'
    if c.errors.strip():
        return 'traceback', f'status {c.status} but wsgi.errors received: {c.errors.strip().splitlines()[-1][:160]}'
    if boundary is not None and seen.get('fields') and (framing == 'cl' or framing.startswith('chunked')):
        tok = b'\r\n--' + boundary
        for k, v in flat_values(seen['fields']):
            if tok in v:
                return 'field-spans-delimiter', f'field {k!r} delivered with value {v[:60]!r}, which contains a delimiter: it runs into the following part'
            if (v + tok) not in body:
                return 'truncated-field', f'field {k!r} delivered with value {v[:40]!r}, which is not followed by a delimiter in the body'
    return None


def exc_class(text):
    # signature by the raising exception named on the last traceback line
    t = text.split('wsgi.errors: ')[-1]
    return t.split(':')[0].split('.')[-1][:40] if t else '?'


def in_thread(fn):
    """run fn() on a fresh worker thread (a threaded server never serves on the thread that imported the framework)"""
    import threading
    box = {}

    def target():
        try:
            box['r'] = fn()
        except BaseException as e:   # noqa
            box['e'] = e
    t = threading.Thread(target=target, daemon=True)
    t.start()
    t.join(10)
    if t.is_alive():
        raise core.Hang()
    if 'e' in box:
        raise box['e']
    return box['r']


def run(res, app, seen, body, ctype, acc, framing, boundary, M, threaded=False):
    c = res['counters']
    case = {'body': body, 'ctype': ctype, 'acc': acc, 'framing': framing, 'M': M, 'boundary': boundary, 'threaded': threaded}
    core.track(res, case, 5 if not threaded else 15)
    res['states'] += 1
    res['transitions'] += 1
    if threaded:
        c['threaded_calls'] += 1
        call = in_thread(lambda: do_post(app, seen, body, ctype, acc, framing))
    else:
        call = do_post(app, seen, body, ctype, acc, framing)
    v = judge(call, seen, body, boundary, framing)
    c['calls'] += 1
    if call.code is not None and 400 <= call.code < 500:
        c['client_errors'] += 1
        res['nontrivial'] += 1
    elif call.code == 200:
        c['accepted'] += 1
        n = len(seen.get('fields') or [])
        if n:
            c['delivered_fields'] += n
            res['nontrivial'] += 1
    res['outcomes'].add(f'{acc} {framing} -> {call.code} {"ok" if v is None else v[0]}')
    if v is not None:
        sig = v[0]
        if v[0].startswith('status-5'):
            sig = f'{v[0]}:{acc}:{exc_class(v[1])}'
        core.add_violation(res, case, f'body {body[:60]!r} ctype {ctype!r} read via {acc} ({framing}, buffer {M}): {v[1]}', sig=sig)


def work(spec):
    kind, a, n = spec
    res = core.new_result()
    om = sut.load()
    apps = {M: make_app(om, M) for M in (8, 64, 102400)}
    if kind in ('mp', 'mpx'):
        if kind == 'mp':
            bodies = strings(MP_ALPHA, n, a) if a is not None else [b'']
        else:
            bodies = sorted({s[:p] + a + s[p:] for s in strings(MP_ALPHA, n - 1) for p in range(len(s) + 1)})
        for i, body in enumerate(bodies):
            for acc in ('forms', 'files') if i % 2 == 0 else ('forms',):
                M = (64, 102400)[i % 2]
                app, seen = apps[M]
                run(res, app, seen, body, CT_MP, acc, 'cl', b'B', M)
                if i % 3 == 0:
                    run(res, app, seen, body, CT_MP, acc, 'chunked', b'B', M)
            if i % 500 == 0:
                core.add_sample(res, {'multipart_body': body, 'boundary': 'B'})
    elif kind in ('mut', 'trunc'):
        toks = GOOD[a]
        good = b''.join(toks)
        bodies = []
        if kind == 'mut':
            for i in range(len(toks)):
                bodies.append(b''.join(toks[:i] + toks[i + 1:]))
                bodies.append(b''.join(toks[:i] + [toks[i], toks[i]] + toks[i + 1:]))
                for r in REPL:
                    if r != toks[i]:
                        bodies.append(b''.join(toks[:i] + [r] + toks[i + 1:]))
        else:
            bodies = [good[:i] for i in range(len(good) + 1)]
        bodies = [good] + bodies
        for body in bodies:
            for M in ((n,) if n else (8, 64, 102400)):
                app, seen = apps[M]
                for acc in ('forms', 'files', 'params', 'body'):
                    frs = ['cl', 'chunked', 'cl-short', 'cl-long']
                    if M == 102400:
                        frs += ['chunked1', 'chunked2', 'chunked3', 'chunked7', 'chunked11', 'chunked13']
                    if kind == 'trunc' and M == 64 and acc in ('forms', 'body') and body == good:
                        frs += [f'cut{i}' for i in range(len(refmp.chunked_encode([good[j:j + 5] for j in range(0, len(good), 5)])))]
                    for framing in frs:
                        run(res, app, seen, body, 'multipart/form-data; boundary=BND', acc, framing, b'BND', M)
        core.add_sample(res, {'well_formed_body': good, 'variants': len(bodies)})
    elif kind == 'thread':
        # the same kinds of bad bodies, each served on a fresh worker thread
        good = b''.join(GOOD[1])
        bodies = [good, good[:40], good[:100], b'--BND\r\nno-colon\r\n\r\nv\r\n--BND--', b'{bad json', b'\xff\xfe', b'a=1&b=2', b'x' * 300]
        for body in bodies:
            for ct in ('multipart/form-data; boundary=BND', 'application/json', 'application/x-www-form-urlencoded', 'multipart/form-data'):
                for acc in ('forms', 'files', 'json', 'params', 'body'):
                    for framing in ('cl', 'chunked', 'cut7', 'cl-long'):
                        for M in (8, 64):
                            app, seen = apps[M]
                            run(res, app, seen, body, ct, acc, framing, b'BND' if 'BND' in ct else None, M, threaded=True)
        core.add_sample(res, {'threaded_bodies': len(bodies)})
    elif kind == 'ctype':
        good = b''.join(GOOD[1])
        for ct in CTYPES:
            for body in (good, b'', b'{"a": 1}', b'[1, 2]', b'5', b'null', b'a=1&b=2', b'\xff\xfe', b'--BND--\r\n', b'{"a": "\xff"}'):
                for acc in ('forms', 'files', 'json', 'params', 'body'):
                    for framing in ('cl', 'chunked'):
                        app, seen = apps[64]
                        run(res, app, seen, body, ct, acc, framing, None, 64)
        core.add_sample(res, {'content_types': CTYPES})
    elif kind == 'deep':
        for opener, closer in ((b'[', b']'), (b'{"a":', b'}'), (b'[{"a":', b'}]'), (b'[[1],', b']')):
            for depth in (10, 100, 900, 1100, 5000, n):
                if depth * len(opener) > 100000:
                    continue
                for body in (opener * depth, opener * depth + b'1' + closer * depth, opener * depth + closer * depth):
                    for acc in ('json', 'forms', 'params', 'body'):
                        for framing in ('cl', 'chunked'):
                            app, seen = apps[102400]
                            run(res, app, seen, body, 'application/json', acc, framing, None, 102400)
        # JSON numbers beyond what the interpreter converts (int digit limit), huge exponents, huge strings of escapes
        for body in (b'9' * 4300, b'9' * 4301, b'9' * 20000, b'[' + b'9' * 5000 + b']', b'{"a": -' + b'1' * 6000 + b'}', b'1e999999', b'-1E' + b'9' * 400,
                     b'0.' + b'1' * 9000, b'"' + b'\\u00e9' * 2000 + b'"', b'"' + b'\\ud800' * 500 + b'"', b'[' + b'1,' * 20000 + b'1]'):
            for acc in ('json', 'forms', 'params', 'body'):
                for framing in ('cl', 'chunked'):
                    app, seen = apps[102400]
                    run(res, app, seen, body, 'application/json', acc, framing, None, 102400)
        # long runs of one character inside part headers (quoted parameter values that are never closed, or closed by something
        # unexpected): nothing in the header parsing may take more than linear time
        for ch in (b'\\', b'"', b';', b'=', b' ', b'a'):
            for runlen in (8, 24, 64, 512):
                for tail in (b'', b'"', b'"x', b';'):
                    for param in (b'name', b'filename'):
                        hdr = b'Content-Disposition: form-data; name="n"; ' + param + b'="' + ch * runlen + tail
                        body = b'--BND\r\n' + hdr + b'\r\n\r\nv\r\n--BND--\r\n'
                        for acc in ('forms', 'files'):
                            app, seen = apps[102400]
                            run(res, app, seen, body, 'multipart/form-data; boundary=BND', acc, 'cl', b'BND', 102400)
        core.add_sample(res, {'deep_nesting': [10, 100, 900, 1100, 5000, n], 'header_runs': [8, 24, 64, 512]})
    elif kind == 'json':
        for i, body in enumerate(strings(JS_ALPHA, n, a)):
            for acc in ('json', 'forms'):
                M = (8, 64)[i % 2]
                app, seen = apps[M]
                run(res, app, seen, body, 'application/json', acc, 'cl' if i % 4 else 'chunked', None, M)
            if i % 2000 == 0:
                core.add_sample(res, {'json_body': body})
    else:
        for i, body in enumerate(strings(QS_ALPHA, n)):
            for acc in ('forms', 'params'):
                M = (8, 64)[i % 2]
                app, seen = apps[M]
                run(res, app, seen, body, 'application/x-www-form-urlencoded', acc, 'cl' if i % 4 else 'chunked', None, M)
        core.add_sample(res, {'urlencoded_alphabet': [repr(x) for x in QS_ALPHA]})
    core.untrack()
    res['execs'] = res['transitions']
    return res


def replay(case):
    om = sut.load()
    app, seen = make_app(om, case['M'])
    if case.get('threaded'):
        c = in_thread(lambda: do_post(app, seen, case['body'], case['ctype'], case['acc'], case['framing']))
    else:
        c = do_post(app, seen, case['body'], case['ctype'], case['acc'], case['framing'])
    v = judge(c, seen, case['body'], case['boundary'], case['framing'])
    if v is None:
        return None
    pre = f' after a first look at request.{PRELOOK[case["acc"]]} whose HTTP error it ignores' if (case['M'] == 64 and case['acc'] in PRELOOK) else ''
    return (f'POST body {case["body"][:80]!r} ({len(case["body"])} bytes) Content-Type {case["ctype"]!r}, {case["framing"]}, '
            f'max_memfile_size={case["M"]}, handler reads request.{case["acc"]}{pre}{" (served on a fresh worker thread)" if case.get("threaded") else ""}: {v[1]}')

MANIFEST['text'] += " One application has an errors_map of its own (keyword-built errors), one tries a second accessor after ignoring the first one's HTTP error."
