"""C15 — cookies round-trip; forged signed cookies are never deserialised.

Engine: E-ENUM.  Round trip: every plain value (all strings over {a, space, ';', ',', '"', '\\', '=', ü, €} up to
length 3, '', 4096 x) and every signed value (tuples, nested containers, str, None, bytes, 0, '') under every secret
is set on a response served through Ombott.__call__; the emitted Set-Cookie pair is sent back as the Cookie header of
a new request and read with Request.get_cookie.  Tampering: for every signed cookie every single-character
substitution (64 base64 characters, '!', '?', '='), deletion, truncation and insertion at every position, signature
and payload swaps between cookies, and another secret.
Oracle: untampered -> the value read equals the value set; tampered -> get_cookie returns the default and the
recording proxy installed as the unpickler of ombott.common_helpers saw zero loads() calls.
"""
import itertools
import pickle as real_pickle

from vf import core, sut, wsgi

ID = 'C15'
TITLE = 'Cookies round-trip; forged signed cookies are never deserialised'
ENGINE = 'E-ENUM (cookie values x secrets round trip through WSGI; every one-edit neighbour of every signed cookie)'
RULE = ('states = distinct cookie header strings presented to the real reader; transitions = get_cookie calls; '
        'non-trivial = values needing quoting / non-ASCII, and every tampered cookie')
ASSUMPTIONS = ['an empty plain value reading back as the default is not judged (value or default)',
               'the client returns the cookie-pair exactly as emitted in Set-Cookie (bytes preserved)',
               'MAC strength (HMAC-MD5) is outside what one-edit enumeration decides']
MANIFEST = {
    'engines': ['E-ENUM'],
    'technique': 'bounded-exhaustive enumeration of cookie values (round trip Set-Cookie -> Cookie -> get_cookie) and of '
                 'every single-edit neighbour, swap and foreign-secret variant of each signed cookie with an instrumented unpickler',
    'text': 'All plain strings over a 9-symbol separator/quote/non-ASCII alphabet up to length 3 and seven signed value '
            'shapes under three secrets are round-tripped through the real response and request code; every substitution, '
            'deletion, insertion and truncation at every position of every signed cookie, plus swaps and foreign secrets, '
            'must read as absent without the unpickler being reached, also when it is presented to a Request object that has just read the genuine cookie (Cookie header replaced through the item interface).',
    'note': 'Bounds: plain length <=3 (thorough 4), edit distance 1 + swaps. Trusted: CPython http.cookies/hmac/pickle, the harness transport.',
}

ALPHA = ['a', ' ', ';', ',', '"', '\\', '=', 'ü', '€']
NAMES = ['n', 'a-b', 'N1']
SECRETS = ['s', 'other', 'ü']
SIGNED = [('t', 1), {'k': [1, 2, {'z': None}]}, 'text', None, b'by\x00tes', 0, '', '!looks?signed', '!?', ['cart', 1], bytearray(b'ab'), {'s', 1}]
B64 = 'ABCDEFGHIJKLMNOPQRSTUVWXYZabcdefghijklmnopqrstuvwxyz0123456789+/'
SUBST = B64 + '!?='
MISSING = '<<absent>>'


def scribble(obj):
    """edit a value a handler got from get_cookie in place (as handlers do with session dicts); False if it cannot be edited"""
    if isinstance(obj, dict):
        obj['scribbled'] = True
        for v in obj.values():
            if isinstance(v, list):
                v.append('scribbled')
        return True
    if isinstance(obj, list):
        obj.append('scribbled')
        return True
    if isinstance(obj, (set, bytearray)):
        obj.clear()
        return True
    return False


class Blocked(Exception):
    pass


class PickleProxy:
    """Counts loads() calls; while `armed` (a forged cookie is being presented) the payload is NOT deserialised
    (unpickling attacker-shaped data could do anything to the harness) - the call is recorded and refused."""

    def __init__(self):
        self.loads_calls = 0
        self.armed = False

    def loads(self, *a, **kw):
        self.loads_calls += 1
        if self.armed:
            raise Blocked('forged payload reached the unpickler (refused by the harness)')
        return real_pickle.loads(*a, **kw)

    def __getattr__(self, k):
        return getattr(real_pickle, k)


def strings(n):
    for m in range(0, n + 1):
        for t in itertools.product(ALPHA, repeat=m):
            yield ''.join(t)


def shards(tier, seed):
    n = 3 if tier == 'quick' else 4
    out = [('plain', a, n) for a in [''] + ALPHA]
    for si, sec in enumerate(SECRETS):
        for vi in range(len(SIGNED)):
            out.append(('signed', si, vi))
    if tier == 'thorough':
        # two simultaneous substitutions (one in the signature, one in the payload) for two cookies
        for si, vi in ((0, 0), (2, 1)):
            for k in range(8):
                out.append(('signed2', (si, k), vi))
    out.append(('swap', None, None))
    # two requests on two threads of one application: genuine / forged / other cookies, every schedule with <= 1 (thorough 2) preemptions
    for ci in range(len(THREAD_CASES)):
        for start in (0, 1):
            out.insert(0, ('threads', ci, start, 1))
            if tier == 'thorough':
                out.insert(0, ('threads', ci, start, 2))
    # plain values in which a backslash is followed by digits (they look like the octal escapes of the cookie quoting)
    for seqn in ('\\101', '\\073', '\\377', '\\400', '\\08', '\\1', '\\0012'):
        out.append(('plainx', seqn, 2))
    # signed values that compare equal although they are different values (1 / True / 1.0, 0.0 / -0.0, tuples of them), one after the other
    out.append(('equal', None, None))
    # seed extension: one more character in plain values (all strings <= 2 containing it)
    out.append(('plainx', ['é', '日', '\t', '%', '~', '\x7f', '😀', '|'][seed % 8], 2))
    return out


def bounds(tier, seed):
    return {'plain_alphabet': ALPHA, 'plain_max_len': 3 if tier == 'quick' else 4, 'names': NAMES, 'secrets': SECRETS,
            'signed_values': [repr(v) for v in SIGNED], 'edits': 'substitution by 67 characters, deletion, insertion of 67 '
            'characters, truncation at every position; signature/payload swaps; foreign secret'}


FLOORS = {'schedules': 1000, 'via_reused_object': 100, 'reused_request': 20000, 'via_redirect': 200, 'plain_roundtrips': 500, 'signed_roundtrips': 20, 'tampered': 50000, 'quoted_values': 300}


COOKIE_OPTIONS = [{}, {'max_age': 60}, {'path': '/x', 'secure': True, 'httponly': True}, {'expires': 1700000000}, {'domain': 'h.test', 'max_age': 0}]


def options_for(name, value):
    """a function of the case (replays use the same attributes)"""
    import zlib
    return COOKIE_OPTIONS[zlib.crc32(repr((name, value)).encode('utf8', 'replace')) % len(COOKIE_OPTIONS)]


def emit_cookie(om, name, value, secret, via_redirect=False):
    """Serve a request whose handler sets the cookie (optionally followed by redirect(), which answers with a COPY of the
    response); return the cookie-pair string of the Set-Cookie header."""
    if via_redirect in ('reused', 'reused-raise'):
        return emit_reused(om, name, value, secret, via_redirect == 'reused-raise')
    app = om.default_app() if via_redirect is True else om.Ombott()
    err = {}

    def h():
        try:
            if via_redirect in ('status204', 'status304'):
                app.response.status = int(via_redirect[6:])           # a cookie is not an entity header: it goes out with 204 / 304 too
            if via_redirect == 'twice':
                # the same name set before with another value (and deleted in between): the last one counts
                app.response.set_cookie(name, 'first', path='/')
                app.response.delete_cookie(name)
            # cookie attributes (a function of the case) never change the value that comes back
            app.response.set_cookie(name, value, secret=secret, **options_for(name, value))
        except Exception as e:   # noqa
            err['e'] = f'{type(e).__name__}: {e}'
        if via_redirect is True:
            om.redirect('/next')
        return 'ok'
    app.route('/set', 'GET', h, overwrite=True)
    c = wsgi.call(app, wsgi.environ('GET', '/set'))
    if err:
        return None, 'set_cookie raised ' + err['e']
    sc = c.headers_all('Set-Cookie')
    want_code = 303 if via_redirect is True else (int(via_redirect[6:]) if via_redirect in ('status204', 'status304') else 200)
    if c.code != want_code or len(sc) != 1:
        return None, f'status {c.status}, {len(sc)} Set-Cookie headers'
    return cookie_pair(sc[0]), None


def emit_reused(om, name, value, secret, raised):
    """The cookie is set once on a prepared HTTPResponse object which the handler returns (or raises) for every request:
    the cookie-pair of the SECOND answer (it must be there again, the same as in the first)."""
    app = om.Ombott()
    try:
        prepared = om.HTTPResponse('welcome', 200)
        prepared.set_cookie(name, value, secret=secret)
    except Exception as e:   # noqa
        return None, f'set_cookie raised {type(e).__name__}: {e}'

    def h():
        if raised:
            raise prepared
        return prepared
    app.route('/set', 'GET', h)
    pairs = []
    for _ in (1, 2):
        c = wsgi.call(app, wsgi.environ('GET', '/set'))
        sc = c.headers_all('Set-Cookie')
        if c.code != 200 or len(sc) != 1:
            return None, f'answer #{_} of a prepared response object: status {c.status}, {len(sc)} Set-Cookie headers'
        pairs.append(cookie_pair(sc[0]))
    if pairs[0] != pairs[1]:
        return None, f'a prepared response object sent {pairs[0]!r} first and {pairs[1]!r} the second time'
    return pairs[1], None


def cookie_pair(set_cookie):
    """name=value up to the first ';' outside double quotes (what a client stores and sends back)."""
    out = []
    inq = False
    i = 0
    while i < len(set_cookie):
        ch = set_cookie[i]
        if ch == '\\' and inq and i + 1 < len(set_cookie):
            out.append(set_cookie[i:i + 2])
            i += 2
            continue
        if ch == '"':
            inq = not inq
        elif ch == ';' and not inq:
            break
        out.append(ch)
        i += 1
    return ''.join(out)


EQUAL_VALUES = [1, True, 1.0, 0, False, 0.0, -0.0, (3, 4), (3.0, 4.0), (True, 0), (1, False), 'text', ('text',), frozenset([1]), frozenset([True])]


def equal_case(secret, v1, v2):
    """fresh import; one application signs v1 then v2 (equal, yet another value) under one name and secret; each must read back as itself"""
    om = sut.load(fresh=True)
    ch = sut.sub('common_helpers')
    ch.pickle = PickleProxy()
    for k, v in enumerate((v1, v2)):
        pair, err = emit_cookie(om, 'n', v, secret)
        if err:
            return f'signed {v!r}: {err}'
        got = read_wsgi(om, pair, 'n', secret)
        if repr(got) != repr(v):
            return (f'one process signs the cookie n={v1!r} and then n={v2!r} (secret {secret!r}); the {"first" if k == 0 else "second"} one, sent back as {pair!r}, '
                    f'reads {got!r} instead of {v!r}')
    return None


def read_wsgi(om, pair, name, secret, debug=False):
    app = om.Ombott({'debug': True}) if debug else om.Ombott()
    seen = {}

    def h():
        seen['v'] = app.request.get_cookie(name, default=MISSING, secret=secret)
        return 'ok'
    app.route('/get', 'GET', h)
    c = wsgi.call(app, wsgi.environ('GET', '/get', headers={'Cookie': pair}))
    if c.code != 200:
        return f'<<status {c.status}>>'
    return seen.get('v')


def cookie_pair_of(ch, name, value, key):
    """name="<signed value>" made by the real encoder with an arbitrary key (what somebody holding that key would send)"""
    enc = ch.cookie_encode((name, value), key)
    return f'{name}="{enc.decode("latin1") if isinstance(enc, bytes) else enc}"'


def read_direct(om, pair, name, secret):
    req = om.Request({'HTTP_COOKIE': pair})
    return req.get_cookie(name, default=MISSING, secret=secret)


def read_reused(om, proxy, first_pair, first_secret, pair, name, secret):
    """one Request object: read the cookie of `first_pair`, replace (or delete) the Cookie header through the item
    interface, read again -> (first value, second value)"""
    armed = proxy.armed
    proxy.armed = False
    req = om.Request({'HTTP_COOKIE': first_pair})
    try:
        v1 = req.get_cookie(name, default=MISSING, secret=first_secret)
    finally:
        proxy.armed = armed
    if pair is None:
        del req['HTTP_COOKIE']
    else:
        req['HTTP_COOKIE'] = pair
    return v1, req.get_cookie(name, default=MISSING, secret=secret)


# ---- two requests of one application on two threads (E-SCHED): the verdict on a cookie belongs to the request that carries it ----

THREAD_CASES = [('genuine', 'forged'), ('genuine', 'other-value'), ('genuine', 'none'), ('forged', 'forged')]


def run_threads(om, combo, prefix, gran='line'):
    import os
    from vf.sched import Scheduler
    ch = sut.sub('common_helpers')
    app = om.Ombott()
    secret = 'sesame'
    pairs = {'genuine': cookie_pair_of(ch, 'sess', {'user': 'alice', 'admin': True}, secret),
             'other-value': cookie_pair_of(ch, 'sess', {'user': 'bob', 'admin': False}, secret),
             'forged': cookie_pair_of(ch, 'sess', {'user': 'mallory', 'admin': True}, 'guessed-key'), 'none': None}
    want = {'genuine': {'user': 'alice', 'admin': True}, 'other-value': {'user': 'bob', 'admin': False}, 'forged': MISSING, 'none': MISSING}

    def h():
        return repr(app.request.get_cookie('sess', default=MISSING, secret=secret))
    app.route('/who', 'GET', h)

    def prog(kind):
        hdr = {'Cookie': pairs[kind]} if pairs[kind] else {}
        return lambda: wsgi.call(app, wsgi.environ('GET', '/who', headers=hdr))
    sp = os.path.join(os.path.realpath(sut.SRC), 'ombott') + os.sep
    x = Scheduler([prog(combo[0]), prog(combo[1])], prefix, lambda fn: fn.startswith(sp) or fn == HERE, granularity=gran).run()
    return x, [repr(want[k]).encode() for k in combo]


HERE = __import__('os').path.abspath(__file__)


def judge_threads(combo, x, want):
    if x.hung:
        return 'threads:hang', 'a thread did not finish'
    for t, e in x.errors.items():
        return 'threads:error', f'thread {t} raised {type(e).__name__}: {e}'
    for t in (0, 1):
        r = x.results[t]
        if r.code != 200 or r.body != want[t]:
            return 'threads:' + combo[t], f'the request with the {combo[t]} cookie read {r.body!r} (status {r.status}); on its own it reads {want[t]!r}'
    return None


def work_threads(spec):
    from vf.sched import explore
    _, ci, start, bound = spec
    res = core.new_result()
    c = res['counters']
    combo = THREAD_CASES[ci]

    gran = 'call' if bound >= 2 else 'line'        # two preemptions: scheduling points at function entries

    def run(p):
        om = sut.load(fresh=True)
        return run_threads(om, combo, p, gran)
    last = {}

    def run_x(p):
        x, want = run(p)
        last['want'] = want
        return x
    for prefix, x in explore(run_x, bound, base=(start,)):
        res['states'] += 1
        res['transitions'] += len(x.points)
        c['schedules'] += 1
        if x.switches:
            res['nontrivial'] += 1
        v = judge_threads(combo, x, last['want'])
        res['outcomes'].add(f'threads {combo} -> {"ok" if v is None else v[0]}')
        if v is not None:
            core.add_violation(res, {'kind': 'threads', 'combo': ci, 'choices': list(x.choices), 'gran': gran},
                               f'requests carrying a {combo[0]} and a {combo[1]} signed cookie on two threads of one application, {x.switches} switches: {v[1]}', sig=v[0])
    res['execs'] = res['states']
    core.add_sample(res, {'threads': list(combo), 'first_thread': start, 'preemption_bound': bound, 'schedules': c['schedules']})
    sut.load(fresh=True)
    return res


def work(spec):
    kind = spec[0]
    if kind == 'threads':
        return work_threads(spec)
    res = core.new_result()
    om = sut.load()
    ch = sut.sub('common_helpers')
    proxy = PickleProxy()
    ch.pickle = proxy
    c = res['counters']
    try:
        if kind in ('plain', 'plainx'):
            _, first, n = spec
            if kind == 'plain':
                vals = [first + s for s in strings(n - 1)] if first else ['', 'x' * 4096]
            else:
                vals = sorted({s[:p] + first + s[p:] for s in strings(n - 1) for p in range(len(s) + 1)})
            prev_plain = None
            for i, v in enumerate(vals):
                name = NAMES[(i // 2) % len(NAMES)]
                case = {'kind': 'plain', 'name': name, 'value': v}
                core.track(res, case)
                res['states'] += 1
                via = [False, True, 'reused', 'twice', True, 'reused-raise', 'status204', 'status304'][i % 8]
                case['redirect'] = via
                pair, err = emit_cookie(om, name, v, None, via)
                if err:
                    core.add_violation(res, case, f'plain {v!r}: {err}', sig='plain:emit')
                    continue
                if via is True:
                    c['via_redirect'] += 1
                elif via:
                    c['via_reused_object'] += 1
                got = read_wsgi(om, pair, name, None)
                res['transitions'] += 2
                c['plain_roundtrips'] += 1
                if '"' in pair:
                    c['quoted_values'] += 1
                    res['nontrivial'] += 1
                exp = v if v != '' else got      # '' may read as the default (not judged)
                res['outcomes'].add('plain ' + ('ok' if got == exp else 'DIFF'))
                if got != exp:
                    sig = 'plain:non-latin1' if any(ord(x) > 255 for x in v) else 'plain:roundtrip'
                    core.add_violation(res, case, f'plain cookie {name}={v!r} sent back as {pair!r} reads {got!r}', sig=sig)
                elif i % 200 == 0:
                    core.add_sample(res, {'set': v, 'cookie_header': pair, 'read': got})
                # one Request object whose Cookie header is replaced after a first read
                if got == exp and prev_plain and prev_plain[0] == name:
                    _, pv, ppair = prev_plain
                    v1, v2 = read_reused(om, proxy, ppair, None, pair, name, None)
                    v3 = read_reused(om, proxy, pair, None, None, name, None)[1]
                    res['transitions'] += 2
                    c['reused_request'] += 2
                    if v2 != got or v3 != MISSING:
                        core.add_violation(res, dict(case, prev_pair=ppair), f'one Request object: Cookie {ppair!r} read ({v1!r}), header replaced by '
                                           f'{pair!r}: reads {v2!r}; header deleted after a read: reads {v3!r}', sig='plain:stale-after-header-change')
                if got == exp and v != '':
                    prev_plain = (name, v, pair)
        elif kind == 'equal':
            for secret in SECRETS[:2]:
                for v1, v2 in itertools.permutations(EQUAL_VALUES, 2):
                    if v1 != v2:
                        continue
                    case = {'kind': 'equal', 'values': [repr(v1), repr(v2)], 'secret': secret, 'fresh': True}
                    core.track(res, case)
                    bad = equal_case(secret, v1, v2)
                    res['states'] += 1
                    res['transitions'] += 4
                    c['signed_roundtrips'] += 2
                    c['equal_value_pairs'] += 1
                    res['nontrivial'] += 1
                    res['outcomes'].add('equal-valued pair ' + ('ok' if bad is None else 'DIFF'))
                    if bad:
                        core.add_violation(res, case, bad, sig='signed:equal-values')
            sut.load(fresh=True)
        elif kind == 'signed2':
            _, (si, k), vi = spec
            secret, value = SECRETS[si], SIGNED[vi]
            name = 'n'
            pair, err = emit_cookie(om, name, value, secret)
            inner = pair[len(name) + 2:-1]
            q = inner.index('?')
            read_wsgi(om, pair, name, secret)
            for p1 in range(1 + k, q, 8):
                for p2 in range(q + 1, min(q + 9, len(inner))):
                    for s1 in B64:
                        for s2 in B64:
                            if s1 == inner[p1] or s2 == inner[p2]:
                                continue
                            new = inner[:p1] + s1 + inner[p1 + 1:p2] + s2 + inner[p2 + 1:]
                            hdr = f'{name}="{new}"'
                            res['states'] += 1
                            res['transitions'] += 1
                            c['tampered'] += 1
                            b0 = proxy.loads_calls
                            proxy.armed = True
                            try:
                                g = read_direct(om, hdr, name, secret)
                            except Exception as e:   # noqa
                                g = f'<<raised {type(e).__name__}>>'
                            finally:
                                proxy.armed = False
                            if g != MISSING or proxy.loads_calls != b0:
                                core.add_violation(res, {'kind': 'signed', 'name': name, 'si': si, 'vi': vi, 'edit': f'substitute@{p1}:{s1}+@{p2}:{s2}',
                                                         'header': hdr, 'secret': secret},
                                                   f'double substitution sent as {hdr!r}: read {g!r}', sig='forged:accepted')
            core.add_sample(res, {'double_substitutions_of': repr(value), 'secret': secret})
        elif kind == 'signed':
            _, si, vi = spec
            secret, value = SECRETS[si], SIGNED[vi]
            name = NAMES[(si + vi) % len(NAMES)]
            pair, err = emit_cookie(om, name, value, secret)
            case0 = {'kind': 'signed', 'name': name, 'si': si, 'vi': vi}
            if err:
                core.add_violation(res, case0, f'signed {value!r}: {err}', sig='signed:emit')
                return res
            # the same cookie set on a response that is then turned into a redirect
            pair_r, err_r = emit_cookie(om, name, value, secret, True)
            got_r = read_wsgi(om, pair_r, name, secret) if not err_r else err_r
            c['via_redirect'] += 1
            if err_r or got_r != value:
                core.add_violation(res, dict(case0, redirect=True), f'signed cookie {name}={value!r} set before redirect(): sent back as {pair_r!r} reads {got_r!r}',
                                   sig='signed:roundtrip-redirect')
            for mode in ('reused', 'reused-raise', 'twice', 'status204', 'status304'):
                pair_o, err_o = emit_cookie(om, name, value, secret, mode)
                got_o = read_wsgi(om, pair_o, name, secret) if not err_o else err_o
                c['via_reused_object'] += 1
                if err_o or got_o != value:
                    core.add_violation(res, dict(case0, redirect=mode), f'signed cookie {name}={value!r} set on a prepared response object ({mode}): {err_o or ("sent back as %r reads %r" % (pair_o, got_o))}',
                                       sig='signed:roundtrip-reused-object')
            before = proxy.loads_calls
            got = read_wsgi(om, pair, name, secret)
            res['states'] += 1
            res['transitions'] += 2
            c['signed_roundtrips'] += 1
            if got != value:
                core.add_violation(res, case0, f'signed cookie {name}={value!r} secret={secret!r} sent back as {pair!r} reads {got!r} '
                                               f'(unpickler calls: {proxy.loads_calls - before})', sig='signed:roundtrip')
                return res
            # what a handler does with the value it read is its own business: the same cookie returned by the next request reads unchanged
            if scribble(got):
                got2 = read_wsgi(om, pair, name, secret)
                res['transitions'] += 1
                c['read_again_after_edit'] += 1
                if got2 != value:
                    core.add_violation(res, dict(case0, scribble=True), f'signed cookie {name}={value!r} secret={secret!r} sent back as {pair!r} by two requests; the first '
                                       f'handler edits the object it read in place; the second request reads {got2!r}', sig='signed:shared-object')
                    return res
            core.add_sample(res, {'name': name, 'value': repr(value), 'secret': secret, 'cookie_header': pair})
            # every one-edit neighbour of the inner value
            assert pair.startswith(name + '="') and pair.endswith('"'), pair
            inner = pair[len(name) + 2:-1]

            def tamper(new_inner, what, sec=secret):
                if new_inner == inner and sec == secret:
                    return
                hdr = f'{name}="{new_inner}"'
                res['states'] += 1
                res['transitions'] += 1
                c['tampered'] += 1
                res['nontrivial'] += 1
                core.track(res, dict(case0, edit=what))
                b = proxy.loads_calls
                proxy.armed = True
                try:
                    g = read_direct(om, hdr, name, sec)
                except Exception as e:   # noqa
                    g = f'<<raised {type(e).__name__}: {e}>>'
                finally:
                    proxy.armed = False
                unp = proxy.loads_calls - b
                ok = g == MISSING and unp == 0
                res['outcomes'].add('tampered ' + ('absent' if ok else 'ACCEPTED' if g != MISSING else 'UNPICKLED'))
                if ok and c['tampered'] % 4 == 0:
                    # ... and to an application running in debug mode (through WSGI, wsgi.errors present)
                    b = proxy.loads_calls
                    proxy.armed = True
                    try:
                        gd = read_wsgi(om, hdr, name, sec, debug=True)
                    except Exception as e:   # noqa
                        gd = f'<<raised {type(e).__name__}: {e}>>'
                    finally:
                        proxy.armed = False
                    c['tampered_debug_app'] += 1
                    if gd != MISSING or proxy.loads_calls != b:
                        core.add_violation(res, dict(case0, edit=what, header=hdr, secret=sec, debug_app=True),
                                           f'{what} of the signed cookie ({value!r}, secret {secret!r}) sent as {hdr!r} to an application with debug=True: read {gd!r}, '
                                           f'unpickler reached {proxy.loads_calls - b} time(s)', sig='forged:debug-app')
                        return
                if ok:
                    # the same forgery presented to a Request object that has just read the genuine cookie
                    b = proxy.loads_calls
                    proxy.armed = True
                    try:
                        g1, g2 = read_reused(om, proxy, pair, secret, hdr, name, sec)
                    except Exception as e:   # noqa
                        g1, g2 = value, f'<<raised {type(e).__name__}: {e}>>'
                    finally:
                        proxy.armed = False
                    c['reused_request'] += 1
                    res['transitions'] += 1
                    if g1 != value or g2 != MISSING or proxy.loads_calls - b != 1:
                        core.add_violation(res, dict(case0, edit=what, header=hdr, secret=sec, reused=True),
                                           f'one Request object reads the genuine cookie ({g1!r}), then its Cookie header is replaced by the '
                                           f'{what} {hdr!r}: read {g2!r}, unpickler reached {proxy.loads_calls - b - 1} more time(s)',
                                           sig='forged:accepted-after-genuine')
                    return
                if not ok:
                    core.add_violation(res, dict(case0, edit=what, header=hdr, secret=sec),
                                       f'{what} of the signed cookie ({value!r}, secret {secret!r}) sent as {hdr!r}: read {g!r}, '
                                       f'unpickler reached {unp} time(s)', sig='forged:' + ('unpickled' if unp else 'accepted'))
            for p in range(len(inner)):
                for s in SUBST:
                    if s != inner[p]:
                        tamper(inner[:p] + s + inner[p + 1:], f'substitute@{p}:{s}')
                tamper(inner[:p] + inner[p + 1:], f'delete@{p}')
                tamper(inner[:p], f'truncate@{p}')
            for p in range(len(inner) + 1):
                for s in SUBST:
                    tamper(inner[:p] + s + inner[p:], f'insert@{p}:{s}')
            for other in SECRETS + ['', 'S', secret + ' ', secret[:-1] or 'x']:
                if other != secret and other:
                    tamper(inner, f'foreign-secret:{other}', sec=other)
        else:   # swaps between cookies
            cookies = []
            for si, sec in enumerate(SECRETS[:2]):
                for vi, val in enumerate(SIGNED):
                    pair, err = emit_cookie(om, 'n', val, sec)
                    if not err:
                        inner = pair[len('n="'):-1]
                        sig, _, msg = inner.partition('?')
                        cookies.append((sec, val, sig, msg))
            for (s1, v1, sig1, msg1), (s2, v2, sig2, msg2) in itertools.permutations(cookies, 2):
                if msg1 == msg2:
                    continue
                for secret in {s1, s2}:
                    hdr = f'n="{sig1}?{msg2}"'
                    if secret == s1 and msg2 == msg1:
                        continue
                    res['states'] += 1
                    res['transitions'] += 1
                    c['tampered'] += 1
                    b = proxy.loads_calls
                    proxy.armed = True
                    try:
                        g = read_direct(om, hdr, 'n', secret)
                    except Exception as e:   # noqa
                        g = f'<<raised {type(e).__name__}: {e}>>'
                    finally:
                        proxy.armed = False
                    unp = proxy.loads_calls - b
                    if g != MISSING or unp:
                        core.add_violation(res, {'kind': 'swap', 'header': hdr, 'secret': secret},
                                           f'signature of ({v1!r},{s1!r}) with payload of ({v2!r},{s2!r}) read with {secret!r}: '
                                           f'{g!r}, unpickler reached {unp} time(s)', sig='forged:swap')
            # secrets of other types and shapes (bytes, with low bytes, empty-looking): a cookie signed with ANOTHER key - the empty
            # key, NUL keys, a prefix, one byte of the secret - reads as absent
            def kb(k):
                return k.encode('utf8') if isinstance(k, str) else bytes(k)
            for legit in (b'k3y-2024', b'\x01\x02secret', b'0', 's3cr3t', '\u00fc', 'a b'):
                forged_keys = [b'', b'\0', b'\0' * 8, b'\0' * 64, kb(legit)[:1], kb(legit)[1:], kb(legit) + b'x', kb(legit)[::-1], '', 'k', b'k3y-2025']
                try:
                    good = cookie_pair_of(ch, 'n', {'uid': 7}, legit)
                    back = read_direct(om, good, 'n', legit)
                except Exception as e:   # noqa
                    good, back = None, f'<<raised {type(e).__name__}: {e}>>'
                if back != {'uid': 7}:
                    core.add_violation(res, {'kind': 'swap', 'header': good, 'secret': repr(legit)}, f'genuine cookie under the secret {legit!r} does not read back', sig='signed:roundtrip-secret-type')
                for fk in forged_keys:
                    if kb(fk).rstrip(b'\0') == kb(legit).rstrip(b'\0'):
                        continue          # (HMAC pads short keys with NUL bytes: the same key)
                    try:
                        hdr = cookie_pair_of(ch, 'n', {'uid': 0, 'admin': True}, fk)
                    except Exception:   # noqa  (nobody can sign with this key: nothing to present)
                        hdr = None
                    if hdr is None:
                        # ... then the forger signs by hand (HMAC-MD5 over the base64 payload, as the wire format says)
                        import base64
                        import hashlib
                        import hmac
                        import pickle as _p
                        msg = base64.b64encode(_p.dumps(('n', {'uid': 0, 'admin': True}), -1))
                        sig = base64.b64encode(hmac.new(kb(fk), msg, digestmod=hashlib.md5).digest())
                        hdr = 'n="!' + sig.decode() + '?' + msg.decode() + '"'
                    res['states'] += 1
                    res['transitions'] += 1
                    c['tampered'] += 1
                    c['foreign_key_forgeries'] += 1
                    b = proxy.loads_calls
                    proxy.armed = True
                    try:
                        g = read_direct(om, hdr, 'n', legit)
                    except Exception as e:   # noqa
                        g = f'<<raised {type(e).__name__}: {e}>>'
                    finally:
                        proxy.armed = False
                    unp = proxy.loads_calls - b
                    if g != MISSING or unp:
                        core.add_violation(res, {'kind': 'swap', 'header': hdr, 'secret': legit if isinstance(legit, str) else {'bytes': list(legit)}},
                                           f'cookie signed with the key {fk!r} read with the secret {legit!r}: {g!r}, unpickler reached {unp} time(s)', sig='forged:foreign-key')
            core.add_sample(res, {'swap_cookies': len(cookies)})
    finally:
        core.untrack()
        ch.pickle = real_pickle
    res['execs'] = res['transitions']
    return res


def replay(case):
    if case.get('kind') == 'threads':
        combo = THREAD_CASES[case['combo']]
        x, want = run_threads(sut.load(fresh=True), combo, case['choices'], case.get('gran', 'line'))
        v = judge_threads(combo, x, want)
        sut.load(fresh=True)
        return None if v is None else (f'requests carrying a {combo[0]} and a {combo[1]} signed cookie on two threads of one application under the schedule '
                                       f'with {x.switches} switches: {v[1]}')
    om = sut.load(fresh=bool(case.get('scribble')))
    ch = sut.sub('common_helpers')
    proxy = PickleProxy()
    ch.pickle = proxy
    try:
        if case['kind'] == 'plain':
            pair, err = emit_cookie(om, case['name'], case['value'], None, case.get('redirect', False))
            if err:
                return f'plain {case["value"]!r}: {err}'
            got = read_wsgi(om, pair, case['name'], None)
            if case.get('prev_pair'):
                v1, v2 = read_reused(om, proxy, case['prev_pair'], None, pair, case['name'], None)
                v3 = read_reused(om, proxy, pair, None, None, case['name'], None)[1]
                if v2 == got and v3 == MISSING:
                    return None
                return (f'one Request object: get_cookie({case["name"]!r}) with Cookie {case["prev_pair"]!r} reads {v1!r}; after request["HTTP_COOKIE"] = {pair!r} it reads '
                        f'{v2!r} (a fresh request reads {got!r}); after a read and del request["HTTP_COOKIE"] it reads {v3!r}')
            if got == case['value'] or case['value'] == '':
                return None
            return (f'response.set_cookie({case["name"]!r}, {case["value"]!r}){" followed by redirect()" if case.get("redirect") is True else (" on a prepared HTTPResponse object that is " + ("raised" if case.get("redirect") == "reused-raise" else "returned") + " for two requests (second answer)" if case.get("redirect") in ("reused", "reused-raise") else (" after the same name was set to another value and deleted on the same response" if case.get("redirect") == "twice" else (" on a response with status " + str(case.get("redirect"))[6:] if str(case.get("redirect")).startswith("status") else "")))} emits {pair!r}; sent back as the Cookie header, '
                    f'request.get_cookie reads {got!r}')
        if case['kind'] == 'equal':
            vals = {repr(v): v for v in EQUAL_VALUES}
            try:
                return equal_case(case['secret'], vals[case['values'][0]], vals[case['values'][1]])
            finally:
                sut.load(fresh=True)
        if case['kind'] == 'swap':
            if isinstance(case['secret'], dict):
                case = dict(case, secret=bytes(case['secret']['bytes']))
            proxy.armed = True
            try:
                g = read_direct(om, case['header'], 'n', case['secret'])
            except Exception as e:   # noqa
                g = f'<<raised {type(e).__name__}: {e}>>'
            if g == MISSING and proxy.loads_calls == 0:
                return None
            return f'forged cookie {case["header"]!r} read with secret {case["secret"]!r}: {g!r}, unpickler reached {proxy.loads_calls} time(s)'
        secret, value = SECRETS[case['si']], SIGNED[case['vi']]
        name = case['name']
        if 'header' not in case:
            pair, err = emit_cookie(om, name, value, secret, case.get('redirect', False))
            if err:
                return err
            got = read_wsgi(om, pair, name, secret)
            if got == value and case.get('scribble') and scribble(got):
                got2 = read_wsgi(om, pair, name, secret)
                return None if got2 == value else (f'signed cookie {name}={value!r} sent back as {pair!r} by two requests; the first handler edits the object it '
                                                   f'read in place; the second request reads {got2!r}')
            return None if got == value else f'signed cookie {name}={value!r} sent back as {pair!r} reads {got!r}'
        # same history as in the search: the genuine cookie is issued and read once, then the forged one is presented
        pair, err = emit_cookie(om, name, value, secret)
        if not err:
            read_wsgi(om, pair, name, secret)
        proxy.loads_calls = 0
        if case.get('debug_app'):
            proxy.armed = True
            try:
                gd = read_wsgi(om, case['header'], name, case['secret'], debug=True)
            except Exception as e:   # noqa
                gd = f'<<raised {type(e).__name__}: {e}>>'
            if gd == MISSING and proxy.loads_calls == 0:
                return None
            return (f'application with debug=True: the forged cookie {case["header"]!r} ({case["edit"]} of the genuine one) read with secret {case["secret"]!r}: get_cookie gives {gd!r}, '
                    f'the unpickler was reached {proxy.loads_calls} time(s)')
        if case.get('reused'):
            proxy.armed = True
            try:
                g1, g2 = read_reused(om, proxy, pair, secret, case['header'], name, case['secret'])
            except Exception as e:   # noqa
                g1, g2 = value, f'<<raised {type(e).__name__}: {e}>>'
            if g1 == value and g2 == MISSING and proxy.loads_calls == 1:
                return None
            return (f'one Request object reads the genuine signed cookie ({g1!r}, secret {secret!r}); then request["HTTP_COOKIE"] is set to the {case["edit"]} '
                    f'{case["header"]!r}: get_cookie (secret {case["secret"]!r}) reads {g2!r}, unpickler reached {proxy.loads_calls - 1} more time(s)')
        proxy.armed = True
        try:
            g = read_direct(om, case['header'], name, case['secret'])
        except Exception as e:   # noqa
            g = f'<<raised {type(e).__name__}: {e}>>'
        if g == MISSING and proxy.loads_calls == 0:
            return None
        return (f'after the genuine cookie was issued and read once: {case["edit"]} of the signed cookie ({value!r}, secret {secret!r}) sent as {case["header"]!r}: get_cookie reads '
                f'{g!r}, unpickler reached {proxy.loads_calls} time(s)')
    finally:
        ch.pickle = real_pickle

MANIFEST['text'] += ' Octal-looking plain values, equal-valued signed payloads of different type one after the other, and forged cookies presented to a debug-mode application are covered.'
MANIFEST['text'] += ' An E-SCHED layer serves requests with genuine, forged, other and no signed cookie on two threads of one application under every schedule with <= 1 preemption; mutable signed values are read, edited in place and read again by the next request.'
if 'E-SCHED' not in MANIFEST['engines']:
    MANIFEST['engines'] = list(MANIFEST['engines']) + ['E-SCHED']
MANIFEST['technique'] += '; stateless exploration of all two-thread schedules (preemption-bounded, source-line scheduling points) for the state the property could park on shared objects'
