"""C06 — multipart parsing is independent of how the body is split into reads.

Engine: explicit-state search (E-HIST, chunk-feeding form).  A state is (offset p, canonical state of the real
MultipartMarkup after having been fed body[:p] in some division); the operations are "feed body[p:q]" for every
q > p.  Every offset is a prefix end, so ONE search per body covers all divisions of all prefixes.
Oracle on every new state: (markups, type(error)) == the one-piece parse of body[:p]; on full bodies the one-piece
parse is additionally compared with the section layout computed by the reference encoder.
Second layer (kind 'wsgi'): the body is posted through Ombott.__call__ with chunked framing whose chunk sizes
realise every 1-cut and 2-cut division (each decoded chunk is one parser feed) and with Content-Length framing
for every buffer size; forms/files seen by the handler must equal the reference field list.
"""
import copy
import itertools

from vf import core, sut, refmp
from vf.canon import Canon
from vf import wsgi

ID = 'C06'
TITLE = 'Multipart parsing is independent of how the body is split into reads'
ENGINE = 'E-HIST (chunk-feeding explicit-state search on the real parser) + WSGI division enumeration'
RULE = ('states = distinct (offset, canonical parser state) pairs reached by feeding the real MultipartMarkup every '
        'division of every prefix of each generated well-formed body; non-trivial = states whose last cut falls '
        'inside a delimiter, a CRLFCRLF, the final hyphens or after the closing delimiter')
ASSUMPTIONS = [
    'well-formed means: optional leading CRLF, delimiter occurs exactly once per part boundary, no preamble text '
    '(the parser documents none); bodies and boundaries are drawn from the listed alphabets',
    'copy.deepcopy of the parser yields an independent parser in the same state (violations are re-established '
    'by a from-scratch replay without deepcopy, twice)',
]
CRLF = b'\r\n'
canon = Canon(tb=False)

B70 = (b'0123456789abcdefghijklmnopqrstuvwxyzABCDEFGHIJKLMNOPQRSTUVWXYZ\'()+_,./:=?')[:70]


def data_items(b):
    return [b'', b'v', b'\r', b'\n', CRLF, b'-', b'--', CRLF + b'-', CRLF + b'--', CRLF + b'--' + b[:-1],
            CRLF + CRLF, b'--' + b, b'--' + b + b'--', b'\r\r\n', b'x' + CRLF + b'--' + b[:-1] + CRLF + b'-y']


HDRS = [b'A: b', b'A: b\r\nC: d', None]   # None -> a header whose value contains dashes and the boundary text


def hdr(h, b):
    return h if h is not None else b'X: --' + b + b'-- -\r'


def bodies(tier, seed):
    """Deterministic list of (boundary, parts, lead, epilogue, close)."""
    out = []
    if tier == 'quick':
        bnds = [b'b', b'a-a', b'-']
        for b in bnds:
            di = data_items(b)
            for d in (di[0], di[9], di[10], di[12]):
                out.append((b, [(hdr(HDRS[0], b), d)], b'', CRLF, True))
            out.append((b, [(hdr(HDRS[2], b), di[8]), (hdr(HDRS[1], b), di[5])], CRLF, b'', True))
            # the optional CRLF in front of the first delimiter + part data that BEGINS with the delimiter text (a pasted HTTP trace)
            out.append((b, [(hdr(HDRS[0], b), di[11])], CRLF, CRLF, True))
            out.append((b, [(hdr(HDRS[0], b), di[12]), (hdr(HDRS[1], b), di[11])], CRLF, b'', True))
            out.append((b, [(hdr(HDRS[0], b), b'--' + b + b' x' + CRLF + b'-- y'), (hdr(HDRS[1], b), b'')], CRLF, CRLF, True))
        out.append((b'xy', [(b'A: b', b'--')], b'', b'--', True))
        out.append((b'xy', [], b'', CRLF + b'epi', True))
        # epilogues that look like a header block (empty line, CR LF CR x, a header line) after the closing delimiter
        out.append((b'xy', [(b'A: b', b'd')], b'', CRLF + CRLF + b'x', True))
        out.append((b'b', [(b'A: b', b'd')], b'', CRLF + b'E: f' + CRLF + CRLF + b't', True))
        out.append((b'b', [(b'A: b', b'')], CRLF, CRLF + b'\rx' + CRLF, True))
        return out
    bnds = [b'b', b'xy', b'a-a', b'-', b'--', b'B.9', B70]
    for b in bnds:
        di = data_items(b)
        long = len(b) > 10
        for i, d in enumerate(di):
            out.append((b, [(hdr(HDRS[i % 3], b), d)], b'' if i % 2 else CRLF,
                        [b'', CRLF, CRLF + b'epi', b'--', CRLF + CRLF + b'x', CRLF + b'E: f' + CRLF + CRLF + b't', CRLF + b'\rx' + CRLF][i % 7], True))
        if not long:
            # two and three parts, interleaving the adversarial data
            for i in range(0, len(di) - 1, 2):
                out.append((b, [(hdr(HDRS[0], b), di[i]), (hdr(HDRS[2], b), di[i + 1])], b'', CRLF, True))
            out.append((b, [(b'A: b', di[9]), (b'A: b', di[10]), (b'A: b', di[12])], CRLF, CRLF + b'--' + b + b'--', True))
        out.append((b, [], b'', CRLF, True))
        out.append((b, [(hdr(HDRS[1], b), di[9])], b'', b'', False))   # unterminated (a prefix family of its own)
    # seed-selected extension: one extra boundary, enumerated just as exhaustively
    extra = [b'Q', b'zz-', b'-z', b'0-0-'][seed % 4]
    for d in data_items(extra)[:8]:
        out.append((extra, [(b'A: b', d)], b'', CRLF, True))
    for b in bnds:
        di = data_items(b)
        out.append((b, [(hdr(HDRS[0], b), di[11])], CRLF, CRLF, True))
        out.append((b, [(hdr(HDRS[0], b), di[12]), (hdr(HDRS[1], b), di[11])], CRLF, b'', True))
        out.append((b, [(hdr(HDRS[0], b), b'--' + b + b' x' + CRLF + b'-- y'), (hdr(HDRS[1], b), b'')], CRLF, CRLF, True))
    return out


def wsgi_bodies(tier, seed):
    out = []
    bnds = [b'b', b'a-a'] if tier == 'quick' else [b'b', b'a-a', b'-', b'--', b'xy.']
    for b in bnds:
        di = data_items(b)
        sel = (di[9], di[12]) if tier == 'quick' else (di[0], di[4], di[8], di[9], di[10], di[12], di[14])
        for d in sel:
            fields = [('t', None, b'v'), ('f', 'n.bin', d)]
            out.append((b, fields, CRLF))
        out.append((b, [('f', 'n.bin', di[9]), ('g', 'm.bin', di[8])], b''))
    return out


def shards(tier, seed):
    s = []
    bl = bodies(tier, seed)
    order = sorted(range(len(bl)), key=lambda i: -len(refmp.build(*bl[i][:2], lead=bl[i][2], epilogue=bl[i][3], close=bl[i][4])[0]))
    for i in order:
        s.append(('search', bl[i]))
    for wb in wsgi_bodies(tier, seed):
        s.append(('wsgi', wb))
    for size in ((9000, 70000) if tier == 'quick' else (9000, 20000, 70000, 300000)):
        s.append(('large', size))
    for count in ((300, 1200, 2500) if tier == 'quick' else (300, 1200, 2500, 10000)):
        s.append(('many', count))
    return s


def bounds(tier, seed):
    return {'bodies': len(bodies(tier, seed)), 'wsgi_bodies': len(wsgi_bodies(tier, seed)),
            'divisions': 'all divisions of all prefixes (component layer); all 1- and 2-cut divisions via chunked '
                         'framing and all buffer sizes via Content-Length framing (WSGI layer)'}


FLOORS = {'large_divisions': 500, 'cut_in_delimiter': 10, 'cut_in_hdr_end': 5, 'cut_in_final_hyphens': 1, 'cut_after_close': 1,
          'wsgi_divisions': 50}


def _mp():
    sut.load()
    return sut.sub('request_pkg.multipart')


def one_piece(mp, boundary, data):
    m = mp.MultipartMarkup(boundary)
    if data:
        m.parse(data)
    return result_of(m)


def result_of(m):
    return ([[n, tuple(se)] for n, se in m.markups], type(m.error).__name__ if m.error is not None else None)


def feed_cuts(mp, boundary, body, cuts):
    m = mp.MultipartMarkup(boundary)
    p = 0
    for q in cuts:
        m.parse(body[p:q])
        p = q
    return m


def work(spec):
    kind, arg = spec
    if kind == 'search':
        return work_search(arg)
    if kind == 'large':
        return work_large(arg)
    if kind == 'many':
        return work_many(arg)
    return work_wsgi(arg)


def work_search(arg):
    boundary, parts, lead, epi, close = arg
    res = core.new_result()
    mp = _mp()
    body, lay = refmp.build(boundary, parts, lead=lead, epilogue=epi, close=close)
    strict = refmp.well_formed(body, boundary, len(parts), lead)
    if not strict:
        # the delimiter text occurs where RFC 2046 does not allow it (part data that begins with it): no layout to compare with, and
        # errors are legitimate - but the first sentence of the property holds for ANY body: the result (parts or error) is the
        # one-piece result under every division
        res['notes'].append(f'body outside the strict grammar, differential oracle only: {body!r}')
        res['counters']['lenient_bodies'] += 1
    L = len(body)
    ref = [one_piece(mp, boundary, body[:q]) for q in range(L + 1)]
    res['execs'] += L + 1
    # absolute oracle on the complete body: sections as laid out by the reference encoder
    exp_sections = [[n, tuple(se)] for n, se in lay['sections']]
    if strict and ref[L] != (exp_sections, None):
        core.add_violation(res, {'kind': 'onepiece', 'boundary': boundary, 'body': body,
                                 'expected_sections': exp_sections},
                           f'one-piece parse {ref[L]} != encoder layout {exp_sections}', sig='onepiece-vs-layout')
    for q in range(L + 1):
        if strict and ref[q][1] is not None:
            core.add_violation(res, {'kind': 'prefix-error', 'boundary': boundary, 'body': body, 'cuts': [q]},
                               f'one-piece parse of a prefix ({q} bytes) of a well-formed body reports {ref[q][1]}',
                               sig=f'prefix-error:{ref[q][1]}')

    def classify(q):
        c = res['counters']
        for s, e in lay['delims']:
            if s < q < e:
                c['cut_in_delimiter'] += 1
        for s, e in lay['hdr_ends']:
            if s < q < e:
                c['cut_in_hdr_end'] += 1
        fh = lay['final_hyphens']
        if fh and fh[0] < q < fh[1]:
            c['cut_in_final_hyphens'] += 1
        if fh and q >= lay['close_end'] and q < L:
            c['cut_after_close'] += 1

    init = mp.MultipartMarkup(boundary)
    seen = {(0, canon(init)): None}
    frontier = [(0, init, ())]
    res['states'] += 1
    while frontier:
        nxt = []
        for p, obj, cuts in frontier:
            for q in range(p + 1, L + 1):
                o2 = copy.deepcopy(obj)
                o2.parse(body[p:q])
                res['transitions'] += 1
                key = (q, canon(o2))
                if key in seen:
                    continue
                seen[key] = True
                res['states'] += 1
                if q < L:
                    classify(q)
                got = result_of(o2)
                c2 = cuts + (q,)
                if got != ref[q]:
                    core.add_violation(
                        res, {'kind': 'split', 'boundary': boundary, 'body': body, 'cuts': list(c2)},
                        f'division {list(c2)} of the {q}-byte prefix gives {got}, one piece gives {ref[q]}',
                        sig=f'split:{got[1]}-vs-{ref[q][1]}' + ('' if got[0] == ref[q][0] else ':markups-differ'))
                    res['outcomes'].add(f'DIFF {got[1]} vs {ref[q][1]}')
                    continue   # do not expand states that already disagree
                res['outcomes'].add(f'{len(got[0])} sections, error={got[1]}')
                nxt.append((q, o2, c2))
        frontier = nxt
    res['nontrivial'] += sum(res['counters'][k] for k in
                             ('cut_in_delimiter', 'cut_in_hdr_end', 'cut_in_final_hyphens', 'cut_after_close'))
    core.add_sample(res, {'boundary': boundary, 'body': body, 'states': res['states'],
                          'transitions': res['transitions']})
    return res


def large_body(size):
    """a long first part (file data with delimiter look-alikes) followed by two short ones"""
    b = b'bnd'
    unit = b'0123456789abcdef\r\n--bn\r\n-' + bytes(range(256))
    data = (unit * (size // len(unit) + 1))[:size]
    parts = [(b'Content-Disposition: form-data; name="big"; filename="b.bin"\r\nContent-Type: application/octet-stream', data),
             (b'Content-Disposition: form-data; name="t"\r\nX-Long: ' + b'h' * 60, b'v'), (b'A: b', b'w')]
    body, lay = refmp.build(b, parts, epilogue=CRLF)
    return b, body, lay


def large_cuts(body, lay, size):
    """all 1-cut divisions whose cut lies after the long part's data began to end (the delimiters, header blocks and data of
    the short parts), alone and behind an earlier cut"""
    first_data_end = lay['sections'][2][1][1]
    zone = range(max(1, first_data_end - 6), len(body))
    firsts = [None, 1, 100, 4096, 8192, size // 2, first_data_end - 1]
    for q in zone:
        for f in firsts:
            if f is None:
                yield (q, len(body))
            elif 0 < f < q:
                yield (f, q, len(body))


def work_large(size):
    res = core.new_result()
    mp = _mp()
    b, body, lay = large_body(size)
    ref = one_piece(mp, b, body)
    res['execs'] += 1
    exp_sections = [[n, tuple(se)] for n, se in lay['sections']]
    if ref != (exp_sections, None):
        core.add_violation(res, {'kind': 'large', 'size': size, 'cuts': [len(body)]},
                           f'one-piece parse of the {len(body)}-byte body: {ref[1]}, {len(ref[0])} sections; encoder layout has {len(exp_sections)}', sig='large-onepiece')
    for cuts in large_cuts(body, lay, size):
        got = result_of(feed_cuts(mp, b, body, cuts))
        res['states'] += 1
        res['transitions'] += len(cuts)
        res['execs'] += 1
        res['nontrivial'] += 1
        res['counters']['large_divisions'] += 1
        res['outcomes'].add(f'large: {len(got[0])} sections, error={got[1]}')
        if got != ref:
            core.add_violation(res, {'kind': 'large', 'size': size, 'cuts': list(cuts)},
                               f'{len(body)}-byte body (first part {size} bytes) fed in chunks ending at {list(cuts)}: error={got[1]}, {len(got[0])} sections; '
                               f'one piece: error={ref[1]}, {len(ref[0])} sections', sig=f'large:{got[1]}')
    core.add_sample(res, {'large_body_bytes': len(body), 'first_part_bytes': size, 'divisions': res['execs'] - 1})
    return res


def many_body(count):
    b = b'bnd'
    parts = [(b'Content-Disposition: form-data; name="f%d"' % i, b'v%d' % i) for i in range(count)]
    body, lay = refmp.build(b, parts, epilogue=CRLF)
    return b, body, lay


def many_divisions(L):
    yield (L,)
    yield (L // 2, L)
    yield (L // 3, 2 * L // 3, L)
    for step in (1000, 4096, 30000):
        yield tuple(range(step, L, step)) + (L,)


def work_many(count):
    """a well-formed form of very many small fields: every division gives the result of the one-piece parse (= the encoder layout)"""
    res = core.new_result()
    mp = _mp()
    b, body, lay = many_body(count)
    exp_sections = [[n, tuple(se)] for n, se in lay['sections']]
    for cuts in many_divisions(len(body)):
        got = result_of(feed_cuts(mp, b, body, cuts))
        res['states'] += 1
        res['transitions'] += len(cuts)
        res['execs'] += 1
        res['nontrivial'] += 1
        res['counters']['many_parts_divisions'] += 1
        res['outcomes'].add(f'many parts: error={got[1]}')
        if got != (exp_sections, None):
            core.add_violation(res, {'kind': 'many', 'count': count, 'cuts': list(cuts) if len(cuts) < 8 else [cuts[0], 'step', cuts[1] - cuts[0]]},
                               f'{count} fields ({len(body)} bytes) fed in {len(cuts)} piece(s): error={got[1]}, {len(got[0])} sections; the body has {len(exp_sections)}',
                               sig=f'many:{got[1]}')
    core.add_sample(res, {'fields': count, 'bytes': len(body)})
    return res


# ---- WSGI layer ---------------------------------------------------------------------------------------------

def _app_and_expect(fields, boundary, epi):
    parts = [(refmp.cd(n, fn), d) for n, fn, d in fields]
    body, lay = refmp.build(boundary, parts, epilogue=epi)
    exp_forms = {}
    exp_files = {}
    for n, fn, d in fields:
        if fn is None:
            exp_forms[n] = d.decode('utf8')
        else:
            exp_files[n] = (fn, d)
    return body, exp_forms, exp_files


def post_once(om, body, boundary, framing, arg, M):
    """framing 'chunked': arg = list of cut positions; 'cl': arg unused.  Returns (status, forms, files)."""
    app = om.Ombott({'max_memfile_size': M})
    seen = {}

    def h():
        rq = app.request
        seen['forms'] = dict(rq.forms)
        seen['files'] = {k: (v.raw_filename, v.file.read()) for k, v in rq.files.items()}
        return 'ok'
    app.route('/u', 'POST', h)
    ctype = 'multipart/form-data; boundary=' + boundary.decode('latin1')
    if framing == 'chunked':
        pieces = []
        p = 0
        for q in list(arg) + [len(body)]:
            if q > p:
                pieces.append(body[p:q])
            p = q
        env = wsgi.environ('POST', '/u', body=refmp.chunked_encode(pieces), ctype=ctype, chunked=True)
    elif framing == 'cl-short':
        # Content-Length framing over a connection that answers every read short (one byte / half / one byte less than asked for)
        env = wsgi.environ('POST', '/u', input=ShortStream(body, arg[0]), clen=len(body), ctype=ctype)
    else:
        env = wsgi.environ('POST', '/u', body=body, ctype=ctype)
    c = wsgi.call(app, env)
    return c.status, seen.get('forms'), seen.get('files'), c.errors[-300:]


class ShortStream:
    def __init__(self, data, mode):
        self.data, self.pos, self.mode = data, 0, mode

    def read(self, n=-1):
        left = len(self.data) - self.pos
        if n is None or n < 0:
            n = left
        k = min(n, left)
        if k > 1:
            k = {'one': 1, 'half': (k + 1) // 2, 'minus1': k - 1}[self.mode]
        out = self.data[self.pos:self.pos + k]
        self.pos += k
        return out


def work_wsgi(arg):
    boundary, fields, epi = arg
    res = core.new_result()
    om = sut.load()
    body, exp_forms, exp_files = _app_and_expect(fields, boundary, epi)
    L = len(body)
    exp = ('200 OK', exp_forms, exp_files)
    big = 1 << 16

    def check(framing, a, M):
        got = post_once(om, body, boundary, framing, a, M)
        res['execs'] += 1
        res['transitions'] += 1
        res['counters']['wsgi_divisions'] += 1
        res['outcomes'].add(f'wsgi {got[0]}')
        if got[:3] != exp:
            core.add_violation(
                res, {'kind': 'wsgi', 'boundary': boundary, 'fields': [[n, fn, d] for n, fn, d in fields],
                      'epilogue': epi, 'framing': framing, 'arg': list(a) if a else [], 'M': M},
                f'{framing} division {a} M={M}: got {got}, expected {exp}', sig=f'wsgi:{framing}:{got[0]}')
    check('cl', None, big)
    for q in range(1, L):
        check('chunked', (q,), big)
    for q1, q2 in itertools.combinations(range(1, L), 2):
        check('chunked', (q1, q2), big)
    need = sum(len(refmp.cd(n, fn)) + (len(d) if fn is None else 0) for n, fn, d in fields)
    for M in range(need, L + 2):
        check('cl', None, M)      # buffer-size-regular cuts
        check('chunked', (), M)
        for mode in ('one', 'half', 'minus1'):
            check('cl-short', (mode,), M)
    res['states'] += 1
    res['nontrivial'] += 1
    core.add_sample(res, {'wsgi_body': body, 'divisions': res['execs']})
    return res


# ---- replay -------------------------------------------------------------------------------------------------

def replay(case):
    k = case['kind']
    if k == 'wsgi':
        om = sut.load()
        fields = [(n, fn, d) for n, fn, d in case['fields']]
        body, ef, eff = _app_and_expect(fields, case['boundary'], case['epilogue'])
        got = post_once(om, body, case['boundary'], case['framing'], case['arg'], case['M'])
        exp = ('200 OK', ef, eff)
        return None if got[:3] == exp else f'{case["framing"]} division {case["arg"]} M={case["M"]} of {body!r}: got {got}, expected {exp}'
    mp = _mp()
    if k == 'many':
        b, body, lay = many_body(case['count'])
        cuts = case['cuts']
        if len(cuts) == 3 and cuts[1] == 'step':
            cuts = tuple(range(cuts[2], len(body), cuts[2])) + (len(body),)
        got = result_of(feed_cuts(mp, b, body, cuts))
        exp_sections = [[n, tuple(se)] for n, se in lay['sections']]
        if got == (exp_sections, None):
            return None
        return (f'a well-formed multipart form of {case["count"]} small fields ({len(body)} bytes, boundary {b!r}) fed to the parser in {len(cuts)} piece(s) '
                f'(ends {list(cuts)[:6]}...): error={got[1]}, {len(got[0])} sections found; the body has {len(exp_sections)} sections')
    if k == 'large':
        b, body, lay = large_body(case['size'])
        got = result_of(feed_cuts(mp, b, body, case['cuts']))
        exp = one_piece(mp, b, body)
        exp_sections = [[n, tuple(se)] for n, se in lay['sections']]
        if got == exp and exp == (exp_sections, None):
            return None
        return (f'multipart body of {len(body)} bytes (a {case["size"]}-byte file part, then two short parts; boundary {b!r}) fed to the parser in chunks ending at '
                f'{case["cuts"]}: error={got[1]}, sections {got[0]}; in one piece: error={exp[1]}, sections {exp[0]}; encoder layout {exp_sections}')
    b, body = case['boundary'], case['body']
    if k == 'onepiece':
        got = one_piece(mp, b, body)
        exp = ([[n, tuple(se)] for n, se in case['expected_sections']], None)
        return None if got == exp else f'one-piece parse of {body!r} gives {got}, encoder layout is {exp}'
    cuts = case['cuts']
    q = cuts[-1]
    got = result_of(feed_cuts(mp, b, body, cuts))
    if k == 'prefix-error':
        return None if got[1] is None else f'prefix body[:{q}] of well-formed {body!r} parsed in one piece reports {got[1]}'
    exp = one_piece(mp, b, body[:q])
    if got == exp:
        return None
    return (f'boundary={b!r} body[:{q}]={body[:q]!r} fed in chunks ending at {cuts} gives {got}; '
            f'in one piece it gives {exp}')

MANIFEST = {
    'engines': ['E-HIST'],
    'technique': 'explicit-state search: all divisions of all prefixes of each body fed to the real parser, '
                 'states deduplicated by canonical parser state, compared with the one-piece parse',
    'text': 'Every (offset, parser-state) pair reachable by feeding the real MultipartMarkup any division of any '
            'prefix of the generated well-formed bodies is visited and compared with the one-piece parse; all 1- and '
            '2-cut divisions are additionally driven through Ombott.__call__ with chunked framing and every buffer '
            'size with Content-Length framing. Exhaustive within the body/boundary alphabet stated in the evidence.',
    'note': 'Bounded to the generated body families (boundaries, adversarial data items, <=3 parts); trusted: '
            'CPython, copy.deepcopy for state forking (violations are replayed from scratch), the reference encoder.',
}

MANIFEST['text'] += ' Two further layers feed a 9 KB - 300 KB first part with every cut in its tail, and forms of 300 - 2500 fields in six divisions.'
MANIFEST['text'] += ' The WSGI layer also reads through connections that answer every read short (one byte, half, one byte less) for every buffer size.'
