"""C10 — application objects in one process are independent of each other.

Engine: E-HIST (one thread) + E-SCHED (one thread per application).
E-HIST: applications A, B and the module-level default application D live in one freshly imported process.  Every
history (depth <= 3 quick / 4 thorough) over the menu {serve a request on X; serve on X a request whose handler,
between reads of X.request / X.response, serves a request on Y (nested call), copies X.request, constructs a
Request, a Response or a new Ombott; create a further application (plain or with its own error map) between requests; requests
ending in framework errors (malformed / oversized body, HTML or JSON); read X.request outside a request} is replayed.
Oracle: every read of X.request.{path, query_string, method, a header, a cookie} and X.response.{status code,
headers, cookie names} inside X's handler - before and after the nested operation - equals X's own request /
response, and every final WSGI response equals the response of the same request served by a lone application.
E-SCHED: requests of A and B served on two threads, all schedules with <= 1 preemption (thorough: <= 2 for two of the pairs) at source-line
granularity, same oracle.
"""
import itertools
import os

from vf import core, sut, wsgi
from vf.sched import Scheduler, explore

ID = 'C10'
TITLE = 'Application objects in one process are independent of each other'
ENGINE = 'E-HIST (histories of nested / alternating calls on 3 applications, fresh import per history) + E-SCHED (2 applications on 2 threads)'
RULE = ('states = distinct histories / schedules executed; transitions = requests served (incl. nested ones); every handler '
        'observation and final response compared with the lone-application run; non-trivial = histories with a nested call, a '
        'copy or a construction inside a handler, and schedules with a preemption')
ASSUMPTIONS = ['three applications (two created, one module-level default), one to two threads',
               'a nested call is a complete Ombott.__call__ of another application made from inside a handler']
MANIFEST = {
    'engines': ['E-HIST', 'E-SCHED'],
    'technique': 'bounded-exhaustive enumeration of operation histories on three applications in one process (nested calls, '
                 'Request.copy, object construction inside handlers) replayed on a fresh import, plus exploration of all '
                 'two-thread schedules with bounded preemptions; oracle = handler observations and responses equal the lone run',
    'text': 'All histories up to depth 2 (quick) / 3 (thorough) over 77 operations, and up to depth 3 / 4 over the 16 error / creation operations, on applications A, B and the default '
            'application, and all schedules with <=1 preemption (thorough: <=2 for the pairs A+B and A:chunked+B:chunked) of requests on two threads, '
            'are executed; each observation of app.request / app.response must show the application\'s own request. Every application registers a before_request hook for itself (the hook log must equal the served sequence); handlers re-read their body around nested requests with bodies; chunked forms and private status codes are part of the menu.',
    'note': 'Bounds: 3 applications, history depth and preemption bound as stated. Trusted: vf/sched.py, the fresh-import loader.',
}

HERE = os.path.abspath(__file__)
APPS = ['A', 'B', 'D']
NESTED = ['none', 'call', 'copy', 'request', 'response', 'ombott', 'mutq', 'st520s', 'st520n']
QS = 'tok=1&k=v&k=w'        # the same query string for every request of every application


LOOKUPS = ('onlyA', 'onlyB', 'api404', 'sca', 'shared')


def menu():
    m = []
    for x in APPS:
        for n in NESTED:
            if n == 'call':
                for y in APPS:
                    if y != x:
                        m.append(('serve', x, 'call', y))
            else:
                m.append(('serve', x, n, None))
    m.append(('create', None, None, None))
    for x in APPS:
        m.append(('outside', x, 'copy', None))
    for x, y in (('A', 'B'), ('B', 'D'), ('D', 'A')):
        m.append(('serve', x, 'callenv', y))
        m.append(('dispatch', x, None, y))
    # the default application's handler ends with redirect() (which works on the module-level request / response),
    # optionally after a nested call to another application
    m.append(('serve', 'D', 'redir', None))
    for y in ('A', 'B'):
        m.append(('serve', 'D', 'redir', y))
    # a chunked urlencoded form (no Content-Length) read through request.forms
    for x in APPS:
        m.append(('serve', x, 'cform', None))
    # every application is asked for the same host name (each maps it to its own tenant)
    for x in APPS:
        m.append(('serve', x, 'dm', None))
    # a route hook of X lets Y serve a request before X's handler runs
    for x, y in (('A', 'B'), ('B', 'A'), ('D', 'A')):
        m.append(('serve', x, 'hookcall', y))
    # a handler that reads its body before and after another application served a request with a body
    for x, y in (('A', 'B'), ('B', 'D'), ('D', 'A'), ('A', None)):
        m.append(('serve', x, 'pbody', y))
    # ... the same with bodies that stay in memory (outer 3 bytes, inner 4 bytes, max_memfile_size 4)
    for x, y in (('A', 'B'), ('B', 'D'), ('D', 'A')):
        m.append(('serve', x, 'pbodys', y))
    # paths that only one application routes, a 404 handler scoped to a prefix (each application has its own), a cookie signed
    # with A's secret (each application verifies with its own secret)
    for x in APPS:
        for k in LOOKUPS:
            m.append(('serve', x, k, None))
    return m + menu_errors()


def menu_errors():
    """requests that end in framework-generated errors, and an application created with its own error map"""
    m = []
    for x in APPS:
        for k in ('badj', 'badh', 'big'):
            m.append(('serve', x, k, None))
    m.append(('create-config', None, None, None))
    # an application running in debug mode is created and answers a malformed and an oversized body itself
    m.append(('debug-app-errors', None, None, None))
    # one more application is created FROM application A's configuration object and then re-configured in place
    m.append(('create-from-A', None, None, None))
    m.append(('app-turnover', None, None, None))
    return m


def menu_small():
    return [('serve', x, 'none', None) for x in APPS] + [('create', None, None, None)] + menu_errors()


class World:
    """three applications in one freshly imported process"""

    def __init__(self):
        self.om = sut.load(fresh=True)
        om = self.om
        # every application maps the host t.example to a tenant prefix of its own; bodies above 4 bytes go to a temporary file
        def cfg(name):
            return {'max_body_size': 8, 'max_memfile_size': 4, 'domain_map': lambda host: ('t' + name.lower()) if host == 't.example' else None}
        self.apps = {'A': om.Ombott(cfg('A')), 'B': om.Ombott(cfg('B')), 'D': om.default_app()}
        self.apps['D'].setup(cfg('D'))
        self.hook_pending = {}
        self.obs = []          # (app name, request id, tag, observation)
        self.served = []       # application names in the order their requests started
        self.hooklog = []      # names logged by the before_request hook each application registered for itself
        self.counter = 0
        self.pending = {}      # app name -> nested op for its next request
        self.shared_answer = om.HTTPResponse('see you', 200, X_Flow='goodbye')
        self.shared_answer.set_cookie('flash', 'bye')
        self.extra = []        # observations of sub-requests made with a derived environ
        for name, app in self.apps.items():
            self._routes(name, app)

    def snap(self, name, rid, tag):
        app = self.apps[name]
        rq, rs = app.request, app.response
        try:
            o = (rq.path, tuple(sorted((k, tuple(v) if isinstance(v, list) else v) for k, v in rq.query.items())), rq.method,
                 rq.headers.get('X-Req'), rq.get_cookie('sid'), tuple(sorted(rq.forms.items())), tuple(sorted(rq.files.keys())),
                 rs.status_code, tuple(sorted(rs.headers.dict.items())), tuple(sorted(rs._cookies.keys())) if rs._cookies else ())
        except Exception as e:   # noqa
            o = ('EXC', type(e).__name__, str(e)[:80])
        self.obs.append((name, rid, tag, o))

    def _routes(self, name, app):
        w = self

        def handler(rid):
            w.snap(name, rid, 'p1')
            app.response.status = 201
            app.response.headers['X-App'] = name + rid
            app.response.set_cookie('c' + name, rid)
            w.snap(name, rid, 'p2')
            op = w.pending.pop((name, rid), None)
            if op and op[0] != 'redir':
                w.nested(name, op)
            if op and op[0] == 'redir':
                if op[1]:
                    w.request(op[1], None)
                w.snap(name, rid, 'p3')
                w.om.redirect('/next/' + rid)
            w.snap(name, rid, 'p3')
            if op and op[0] == 'st520s':
                app.response.status = '520 Own Phrase Of ' + name      # a private status code with the application's own phrase
            if op and op[0] == 'st520n':
                app.response.status = 520                              # the same code given as a number: no phrase of anybody else
            if op and op[0] == 'mutq':
                # a handler may edit its own parsed query; nobody else must notice
                app.request.query.pop('tok', None)
                app.request.query['k'].append('edited-by-' + name)
            return f'{name}:{rid}'
        app.route('/h/<rid>', 'GET', handler)

        def body(rid):
            return app.request.body.read()
        app.route('/b/<rid>', 'POST', body)

        def pbody(rid):
            # the handler reads its body, lets another application serve a request with a body of its own, and reads again
            b1 = app.request.body.read()
            op = w.pending.pop((name, rid), None)
            inner = w.request(op[1], None, 'small')[1][2] if op and op[1] else b'-'
            b2 = app.request.body.read()
            return b1 + b'|' + inner + b'|' + b2
        app.route('/pb/<rid>', 'POST', pbody)
        app.route('/t%s/dm' % name.lower(), 'GET', lambda: 'tenant of ' + name)
        app.route('/only/%s/<year>' % name.lower(), 'GET', lambda year: f'report {year} of {name}')
        app.error(404, '/api')(lambda err: f'{name} has no such api call')
        app.route('/sc', 'GET', lambda: repr(app.request.get_cookie('sess', secret='secret-of-' + name)))

        def shared():
            # a prepared answer object (built once, carrying a cookie of its own) that handlers of ALL applications return;
            # the handler puts a cookie of its application on the response first
            app.response.set_cookie('sid', 'session-of-' + name)
            return w.shared_answer
        app.route('/shared', 'GET', shared)

        def route_hook(prefix):
            # a route hook that lets another application serve a request of its own (an internal sub-request)
            y = w.hook_pending.pop(name, None)
            if y:
                w.request(y, None)
        app.on_route('/h', route_hook)
        app.add_hook('before_request', lambda: w.hooklog.append(name))

        def whoapp(**kw):
            # what a plugin or helper does: it finds the serving application (its configuration, its response) through the request
            serving = app.request.app
            sname = [k for k, v in w.apps.items() if v is serving] or ['another application']
            serving.response.headers['X-Served-By'] = sname[0]
            return f'{name} serves; request.app is {sname[0]}; limit {serving.config.max_body_size}'
        app.route('/whoapp', 'GET', whoapp)
        app.route('/whoapp/%s' % name.lower(), 'GET', whoapp)

        def form(rid):
            return repr((sorted(app.request.forms.items()), sorted(app.request.params.items())))
        app.route('/f/<rid>', 'POST', form)

    def signed_by_a(self):
        if not hasattr(self, '_signed'):
            r = self.om.HTTPResponse()
            r.set_cookie('sess', {'user': 'alice', 'admin': True}, secret='secret-of-A')
            self._signed = r._cookies['sess'].coded_value
        return self._signed

    def nested(self, name, op):
        kind, y = op
        app = self.apps[name]
        om = self.om
        if kind == 'call':
            self.request(y, None)
        elif kind == 'copy':
            c = app.request.copy()
            c.path
        elif kind == 'request':
            om.Request({'PATH_INFO': '/elsewhere', 'REQUEST_METHOD': 'PUT'})
        elif kind == 'response':
            r = om.Response()
            r.status = 404
            r.headers['X-Other'] = '1'
        elif kind == 'ombott':
            om.Ombott()
        elif kind == 'mutq':
            pass
        elif kind == 'callenv':
            # a sub-request to another application made with a COPY of this request's environ (only the path is replaced)
            env = dict(app.request.copy().environ)
            env['PATH_INFO'] = '/whoapp'
            self.served.append(y)
            c = wsgi.call(self.apps[y], env)
            self.extra.append(('callenv', name, y, c.status, c.body, dict(c.headers or []).get('X-Served-By')))

    def request(self, name, op, kind='plain'):
        self.counter += 1
        rid = str(self.counter)
        self.served.append(name)
        if kind != 'plain':
            h = {'Accept': 'application/json'} if kind == 'badj' else {}
            if kind == 'dm':
                env = wsgi.environ('GET', '/dm', qs='who=' + name, headers={'Host': 't.example'})
            elif kind in ('onlyA', 'onlyB'):
                env = wsgi.environ('GET', '/only/%s/2024' % kind[-1].lower(), qs='who=' + name, headers=h)
            elif kind == 'api404':
                env = wsgi.environ('GET', '/api/v9', qs='who=' + name, headers=h)
            elif kind == 'shared':
                env = wsgi.environ('GET', '/shared', qs='who=' + name)
            elif kind == 'sca':
                env = wsgi.environ('GET', '/sc', qs='who=' + name, headers={'Cookie': 'sess=' + self.signed_by_a()})
            elif kind == 'small':
                env = wsgi.environ('POST', f'/b/{rid}', qs='who=' + name, body=b'in' + name.encode() + rid.encode(), headers=h)
            elif kind in ('pbody', 'pbodys'):
                if op:
                    self.pending[(name, rid)] = op
                env = wsgi.environ('POST', f'/pb/{rid}', qs='who=' + name, body=(b'body' if kind == 'pbody' else b'm') + name.encode() + rid.encode(), headers=h)
            elif kind == 'cform':
                fb = b's=%s%s' % (name.encode(), rid.encode())          # within max_body_size
                raw = b'%x\r\n%s\r\n0\r\n\r\n' % (len(fb), fb)
                env = wsgi.environ('POST', f'/f/{rid}', qs='who=' + name, body=raw, chunked=True, ctype='application/x-www-form-urlencoded', headers=h)
            elif kind == 'chunk':
                # a well-formed chunked body of the application's own letter, in two chunks of app-specific sizes
                a, b = {'A': (3, 2), 'B': (1, 6), 'D': (2, 2)}[name]
                ch = name.lower().encode()
                raw = b'%x\r\n%s\r\n%x\r\n%s\r\n0\r\n\r\n' % (a, ch * a, b, ch * b)      # (size lines fit max_memfile_size=4)
                env = wsgi.environ('POST', f'/b/{rid}', qs='who=' + name, body=raw, chunked=True, headers=h)
            elif kind == 'big':
                env = wsgi.environ('POST', f'/b/{rid}', qs='who=' + name * (1 + self.counter % 3), body=b'0123456789abcdef', headers=h)
            else:
                env = wsgi.environ('POST', f'/b/{rid}', qs='who=' + name * (1 + self.counter % 3), body=b'zz\r\n', chunked=True, headers=h)
            c = wsgi.call(self.apps[name], env)
            return rid, (c.status, tuple((str(a), str(b)) for a, b in (c.headers or [])), c.body if c.escaped is None else repr(c.escaped).encode())
        if op:
            self.pending[(name, rid)] = op
        env = wsgi.environ('GET', f'/h/{rid}', qs=QS, headers={'X-Req': name + rid, 'Cookie': 'sid=' + name + rid, 'Host': name.lower() + '.test'})
        c = wsgi.call(self.apps[name], env)
        return rid, (c.status, tuple((str(a), str(b)) for a, b in (c.headers or [])), c.body if c.escaped is None else repr(c.escaped).encode())

    def apply(self, op):
        kind, x, n, y = op
        if kind == 'create':
            self.om.Ombott()
            return None
        if kind == 'app-turnover':
            # applications come and go (tests, per-tenant applications, re-configuration with setup()): a new application has the limits
            # of ITS configuration, whatever lived at that memory address before
            bad = None
            for i in range(40):
                tmp = self.om.Ombott({'max_body_size': 1000 + i, 'allow_x_script_name': True})
                tmp.request.copy()
                del tmp
                self.apps['A'].setup({'max_body_size': 8, 'max_memfile_size': 4, 'domain_map': self.apps['A'].config.domain_map})
                c = self.om.Ombott({'max_body_size': 3})
                c.route('/b', 'POST', lambda c=c: c.request.body.read() + b'|' + c.request.script_name.encode())
                r1 = wsgi.call(c, wsgi.environ('POST', '/b', body=b'12345', headers={'X-Script-Name': '/foreign'}))
                r2 = wsgi.call(c, wsgi.environ('POST', '/b', body=b'12', headers={'X-Script-Name': '/foreign'}))
                if r1.code != 413 or r2.code != 200 or r2.body != b'12|/':
                    bad = bad or (r1.status, r2.status, r2.body)
                del c
            self.extra.append(('turnover', None, None, bad))
            return None
        if kind == 'dispatch':
            # a "try X, on 404 hand the same environ to Y" dispatcher: one environ dict, two applications, one after the other
            env = wsgi.environ('GET', '/whoapp/' + y.lower(), qs='who=' + y)
            self.served += [x, y]
            c1 = wsgi.call(self.apps[x], env)
            c2 = wsgi.call(self.apps[y], env)
            self.extra.append(('dispatch', x, y, c2.status, c2.body, dict(c2.headers or []).get('X-Served-By'), c1.status))
            return None
        if kind == 'debug-app-errors':
            dbg = self.om.Ombott({'debug': True, 'max_body_size': 8})
            dbg.route('/b', 'POST', lambda: dbg.request.body.read())
            dbg.route('/j', 'POST', lambda: repr(dbg.request.json))
            for env in (wsgi.environ('POST', '/b', body=b'zz\r\n', chunked=True, headers={'Accept': 'application/json'}),
                        wsgi.environ('POST', '/b', body=b'0123456789abcdef'),
                        wsgi.environ('POST', '/j', body=b'{bad', ctype='application/json')):
                wsgi.call(dbg, env)
            return None
        if kind == 'create-from-A':
            other = self.om.Ombott(self.apps['A'].config)
            other.config.max_body_size = None
            other.config.debug = True
            other.config.allow_x_script_name = True
            other.request.copy().config.max_memfile_size = 1 << 20
            return None
        if kind == 'create-config':
            errs = sut.sub('request_pkg.errors')
            self.om.Ombott({'errors_map': {errs.BodySizeError: self.om.HTTPError(422, 'own error map')}, 'max_body_size': 4})
            return None
        if n in ('badj', 'badh', 'big', 'cform') + LOOKUPS:
            return self.request(x, None, n)
        if n in ('pbody', 'pbodys'):
            return self.request(x, (n, y), n)
        if n == 'dm':
            return self.request(x, None, 'dm')
        if n == 'hookcall':
            self.hook_pending[x] = y
            return self.request(x, None)
        if kind == 'outside':
            # between requests: copying the request object of an idle application, then looking at it again
            app = self.apps[x]
            before = (app.request.environ.get('PATH_INFO'),)
            app.request.copy()
            self.om.Request({'PATH_INFO': '/other', 'REQUEST_METHOD': 'PUT'})
            after = (app.request.environ.get('PATH_INFO'),)
            return ('outside', x, before, after)
        return self.request(x, None if n == 'none' else (n, y))


def expected_obs(name, rid):
    base = (f'/h/{rid}', (('k', ('v', 'w')), ('tok', '1')), 'GET', name + rid, name + rid, (), ())
    p1 = base + (200, (), ())
    p2 = base + (201, (('X-App', name + rid),), ('c' + name,))
    return {'p1': p1, 'p2': p2, 'p3': p2}


def expected_response(name, rid, nested=None):
    body = f'{name}:{rid}'.encode()
    return ({'st520s': '520 Own Phrase Of ' + name, 'st520n': '520 Unknown'}.get(nested, '201 Created'), (('X-App', name + rid), ('Content-Length', str(len(body))), ('Content-Type', 'text/html; charset=UTF-8'),
                            ('Set-Cookie', f'c{name}={rid}')), body)


def judge_world(w, results, threaded=False):
    if (sorted(w.hooklog) != sorted(w.served)) if threaded else (w.hooklog != w.served):
        return 'foreign-hook', (f'requests were served by {w.served!r}; the before_request hooks that each application registered for itself '
                                f'fired as {w.hooklog!r}')
    for name, rid, tag, o in w.obs:
        exp = expected_obs(name, rid)[tag]
        if o != exp:
            return 'foreign-request-data', (f'application {name}, request {rid}, at {tag}: app.request/app.response show '
                                            f'{o!r}; its own request is {exp!r}')
    for e in w.extra:
        if e[0] == 'turnover':
            if e[3] is not None:
                return 'foreign-config', (f'40 rounds of: an application with max_body_size 1000+ is created and dropped, A is re-configured with setup(), a new application '
                                          f'with max_body_size=3 serves a 5-byte and a 2-byte body: in some round it answered {e[3][0]} / {e[3][1]} {e[3][2]!r}; '
                                          f"its own configuration says 413 / 200 b'12|/'")
            continue
        kind, x, y, status, body, by = e[:6]
        limit = 8
        want = f'{y} serves; request.app is {y}; limit {limit}'.encode()
        if status != '200 OK' or body != want or by != y:
            how = (f'application {x} makes a sub-request to {y} with a copy of its own environ' if kind == 'callenv' else
                   f'a dispatcher hands one environ first to {x} (answer {e[6]}) and then to {y}')
            return 'foreign-app', f'{how}: {y} answered {status} {body!r}, header X-Served-By {by!r} on its response; expected {want!r} and {y!r}'
    for r in results:
        if r is None:
            continue
        if r[0] == 'outside':
            _, x, before, after = r
            if before != after:
                return 'outside-copy', f'{x}.request.environ changed from {before!r} to {after!r} after {x}.request.copy() / Request(...)'
            continue
    return None


_lone = {}


def lone_response(name, kind, rid):
    """the same error request served by the same application alone in a fresh process"""
    key = (name, kind, rid)
    if key not in _lone:
        w = World()
        w.counter = int(rid) - 1
        _lone[key] = w.request(name, None, kind)[1]
    return _lone[key]


def run_history(hist):
    w = World()
    results = []
    served = []
    for op in hist:
        r = w.apply(op)
        results.append(r)
        if op[0] == 'serve':
            served.append((op[1], r, op[2]))
    v = judge_world(w, results)
    if v is None:
        for name, (rid, resp), k in served:
            if k == 'redir':
                exp = ('303 See Other', (('X-App', name + rid), ('Location', f'http://{name.lower()}.test/next/{rid}'), ('Content-Length', '0'),
                                         ('Content-Type', 'text/html; charset=UTF-8'), ('Set-Cookie', f'c{name}={rid}')), b'')
            else:
                if k == 'dm':
                    if resp[0] != '200 OK' or resp[2] != ('tenant of ' + name).encode():
                        v = ('foreign-tenant', f'application {name} asked for host t.example answered {resp[0]} {resp[2][:60]!r}; it maps that host to its own tenant')
                        break
                    continue
                if k in ('hookcall', 'callenv'):
                    k = 'none'
                if k in ('pbody', 'pbodys'):
                    mine = (b'body' if k == 'pbody' else b'm') + name.encode() + rid.encode()
                    if resp[0] != '200 OK' or not (resp[2].startswith(mine + b'|') and resp[2].endswith(b'|' + mine)):
                        v = ('body-changed', f'application {name}, request {rid}: the handler read its body before and after a nested request of another '
                                             f'application; it saw {resp[2]!r} (its body is {mine!r}), status {resp[0]}')
                        break
                    continue
                exp = expected_response(name, rid, k) if k not in ('badj', 'badh', 'big', 'cform') + LOOKUPS else lone_response(name, k, rid)
            if resp != exp:
                v = ('response', f'application {name}, request {rid} answered {resp!r}; alone it answers {exp!r}')
                break
    return v, w


# ---- threads ------------------------------------------------------------------------------------------------------

def src_prefix():
    return os.path.join(os.path.realpath(sut.SRC), 'ombott') + os.sep


def run_threads(pair, prefix):
    w = World()
    names = list(pair)
    progs = [(lambda n=n: w.request(n[0], None, 'chunk') if n.endswith(':c') else
              w.request(n, ('redir', None) if n == 'D' else (('mutq', None) if n == 'B' else None))) for n in names]
    sp = src_prefix()
    x = Scheduler(progs, prefix, lambda fn: fn.startswith(sp) or fn == HERE).run()
    x.results['world'] = w
    return x


def judge_threads(pair, x):
    if x.hung:
        return 'hang', 'a thread did not finish'
    for t, e in x.errors.items():
        return 'thread-error', f'thread {t} raised {type(e).__name__}: {e}'
    w = x.results['world']
    v = judge_world(w, [], threaded=True)
    if v:
        return v
    for t, name in enumerate(pair):
        rid, resp = x.results[t]
        if name.endswith(':c'):
            exp = lone_response(name[0], 'chunk', rid)
            if resp != exp or not resp[0].startswith('200') or resp[2] != name[0].lower().encode() * len(resp[2]):
                return 'response', f'application {name[0]}, chunked request {rid} answered {resp!r}; alone it answers {exp!r}'
            continue
        exp = expected_response(name, rid)
        if name == 'D':
            exp = ('303 See Other', (('X-App', name + rid), ('Location', f'http://{name.lower()}.test/next/{rid}'), ('Content-Length', '0'),
                                     ('Content-Type', 'text/html; charset=UTF-8'), ('Set-Cookie', f'c{name}={rid}')), b'')
        if resp != exp:
            return 'response', f'application {name}, request {rid} answered {resp!r}; alone it answers {exp!r}'
    return None


def shards(tier, seed):
    m = menu()
    depth = 3 if tier == 'quick' else 4
    out = []
    for i in range(len(m)):
        if tier == 'quick':
            out.append(('hist', (i,), 2, 'full'))
        else:
            out.append(('hist', (i,), 3, 'full'))
    ms = menu_small()
    for i in range(len(ms)):
        for j in range(len(ms)):
            out.append(('hist', (i, j), depth if tier == 'quick' else 4, 'small'))
    deep = {(('A', 'B'), 0), (('A:c', 'B:c'), 1)}
    for pair in (('A', 'B'), ('A', 'D'), ('B', 'D'), ('A', 'A'), ('A:c', 'B:c'), ('A:c', 'D')) + \
            ((('A:c', 'A:c'), ('D:c', 'B:c'), ('B:c', 'A')) if tier == 'thorough' else ()):
        for start in (0, 1):
            # two preemptions cost |points|^2 / 2 schedules of ~12 ms each: the thorough tier spends them on the pairs in `deep`
            bound = 2 if tier == 'thorough' and (pair, start) in deep else 1
            npts = len(run_threads(pair, (start,)).points)
            k = 4 if bound == 1 else 32
            edges = sorted({1 + int((npts - 1) * (1 - (1 - j / k) ** bound)) for j in range(k + 1)})
            for lo, hi in zip(edges, edges[1:]):
                out.insert(0, ('threads', pair, bound, start, lo, hi))
    # seed extension: one more nested operation kind (all histories of depth 2 containing it)
    out.append(('extra', seed % 3, 2))
    return out


def bounds(tier, seed):
    return {'applications': APPS, 'menu': len(menu()), 'history_depth': '2 over the full menu, 3 over the 16-operation error/creation menu' if tier == 'quick' else '3 over the full menu, 4 over the error/creation menu',
            'thread_pairs': ['A+B', 'A+D', 'B+D', 'A+A', 'A:chunked+B:chunked', 'A:chunked+D'] + (['A:chunked+A:chunked', 'D:chunked+B:chunked', 'B:chunked+A'] if tier == 'thorough' else []), 'preemption_bound': 1 if tier == 'quick' else '2 for A+B (A first) and A:chunked+B:chunked (B first); 1 for the other pairs and orders'}


FLOORS = {'histories': 3000, 'nested_ops': 2000, 'schedules': 1000}


def work(spec):
    res = core.new_result()
    c = res['counters']
    kind = spec[0]
    m = menu()
    if kind in ('hist', 'extra'):
        if kind == 'hist':
            _, firsts, depth, which = spec
            if which == 'small':
                m = menu_small()
            hists = (tuple(m[i] for i in firsts) + rest for d in range(0, depth - len(firsts) + 1)
                     for rest in itertools.product(m, repeat=d))
        else:
            _, a, depth = spec
            extra_ops = [[('serve', 'B', 'call', 'D'), ('serve', 'D', 'call', 'B')], [('serve', 'D', 'call', 'A'), ('serve', 'A', 'call', 'D')],
                         [('outside', 'A', 'copy', None), ('serve', 'A', 'copy', None)]][a]
            hists = (h for d in (1, 2) for h in itertools.product(m[:8] + extra_ops, repeat=d) if any(o in extra_ops for o in h))
        for hist in hists:
            core.track(res, {'kind': 'hist', 'hist': [list(o) for o in hist]})
            v, w = run_history(hist)
            res['states'] += 1
            res['transitions'] += w.counter
            c['histories'] += 1
            nn = sum(1 for o in hist if o[0] == 'serve' and o[2] != 'none') + sum(1 for o in hist if o[0] != 'serve')
            c['nested_ops'] += nn
            if nn:
                res['nontrivial'] += 1
            res['outcomes'].add('ops ' + ','.join(sorted({o[0] + ':' + str(o[2]) for o in hist})) + ': ' + ('ok' if v is None else v[0]))
            if v is not None:
                core.add_violation(res, {'kind': 'hist', 'hist': [list(o) for o in hist]}, f'history {list(hist)!r}: {v[1]}', sig=v[0])
        core.untrack()
        res['execs'] = res['transitions']
        core.add_sample(res, {'first_ops': [list(m[i]) for i in spec[1]] if kind == 'hist' else 'extra', 'depth': spec[2], 'histories': c['histories']})
        return res
    _, pair, bound, start, lo, hi = spec
    n = 0
    for prefix, x in explore(lambda p: run_threads(pair, p), bound, first_points=(lo, hi), base=(start,)):
        n += 1
        res['states'] += 1
        res['transitions'] += len(x.points)
        c['schedules'] += 1
        if x.switches:
            res['nontrivial'] += 1
        v = judge_threads(pair, x)
        res['outcomes'].add(f'threads {"+".join(pair)} {"ok" if v is None else v[0]}')
        if v is not None:
            core.add_violation(res, {'kind': 'threads', 'pair': list(pair), 'choices': list(x.choices)},
                               f'applications {pair} on two threads, {x.switches} switches: {v[1]}', sig='threads:' + v[0])
    res['execs'] = res['states']
    core.add_sample(res, {'thread_pair': list(pair), 'bound': bound, 'first_thread': start, 'first_deviation_points': [lo, hi], 'schedules': n})
    return res


def replay(case):
    if case['kind'] == 'hist':
        hist = tuple(tuple(o) for o in case['hist'])
        v, w = run_history(hist)
        if v is None:
            return None
        return f'applications A, B and the default application in one process, operations {list(hist)!r}: {v[1]}'
    pair = tuple(case['pair'])
    x = run_threads(pair, tuple(case['choices']))
    v = judge_threads(pair, x)
    if v is None:
        return None
    sw = [(i, c) for i, c in enumerate(x.choices) if c]
    return f'applications {list(pair)} serving one request each on two threads, switches at {sw[:10]}: {v[1]}'
MANIFEST['text'] += " Sub-requests made on a copy of the caller's environ, one environ handed to two applications in turn, and 40 rounds of application turnover (create, drop, setup(), create, serve) are operations of the menu."
