"""C08 — concurrent requests on one application never see each other.

Engine: E-SCHED.  Two (thorough: also three) requests are served by ONE fresh application on separate threads under
the controlled scheduler: every source line of the ombott package and of the harness handlers is a scheduling
point; all schedules with at most 1 preemption (quick; selected pairs with 2) / 2 preemptions (thorough) are
explored, for every unordered pair of request kinds (query + cookie + headers handler that sets status, headers and
a cookie; urlencoded form; multipart upload; raised HTTPResponse; crashing handler with a cold error page; 404;
generator body consumed after __call__ returned; wildcard routes that make the router backtrack).
Oracle: every value a handler reads from app.request / app.response at three points equals its own request's, and
each thread's complete WSGI response (status, header list, body) equals the response of the same request served
alone on a fresh application.
"""
import os

from vf import core, sut, wsgi, refmp
from vf.sched import Scheduler, explore, SchedError

ID = 'C08'
TITLE = 'Concurrent requests on one application never see each other'
ENGINE = 'E-SCHED (controlled thread scheduler on line events, iterative preemption bounding, all pairs of request kinds)'
RULE = ('states = distinct (request pair, schedule) executions; transitions = scheduling points passed; every execution '
        'compared with the stand-alone responses; non-trivial = executions with at least one preemption inside the framework')
ASSUMPTIONS = ['scheduling points are source lines (opcode events for common_helpers.py / response.py in the thorough tier); '
               'CPython GIL: no finer interleaving exists between two bytecodes',
               'at most 2 preemptions, at most 3 threads; free-threaded builds are not modelled']
MANIFEST = {
    'engines': ['E-SCHED'],
    'technique': 'stateless exploration of all thread schedules with a bounded number of preemptions (CHESS iterative context '
                 'bounding) of request pairs on the real application under a sys.settrace-driven scheduler; oracle = handler '
                 'observations and full responses equal the stand-alone run',
    'text': 'For pairs of the request kinds (25 pairs quick, all 210 thorough), every schedule with <=1 preemption at source-line '
            'granularity, and with <=2 preemptions at function-entry granularity (thorough: all pairs of the first ten kinds and the quick tier\'s pairs; two pairs at '
            'line granularity; triples at <=1) is executed on a fresh application '
            'and fresh threads; what each handler read and each complete response must equal the stand-alone run.',
    'note': 'Bounds: preemptions as stated, 2-3 threads, line granularity. Trusted: sys.settrace delivering every line event, '
            'the baton scheduler vf/sched.py (self-tested on a toy race).',
}

HERE = os.path.abspath(__file__)
MP = refmp.build(b'BND', [(refmp.cd('t'), b'v%d'), (refmp.cd('f', 'n.bin', 'text/plain'), b'data%d')], epilogue=b'\r\n')[0]
MP_RICH = refmp.build(b'BND', [(refmp.cd('t'), b'v%d'), (refmp.cd('f', 'n.png', 'image/png') + b'\r\nX-Owner: owner-%d', b'data%d')], epilogue=b'\r\n')[0]
MP = refmp.build(b'BND', [(refmp.cd('t'), b'v%d'), (refmp.cd('f', 'n.bin'), b'data%d')], epilogue=b'\r\n')[0]
KINDS = ['getq', 'form', 'upload', 'raise', 'crash', '404', 'gen', 'wild', 'chunked', 'badform', 'badchunkj', 'badchunkh', 'notmod', 'rex', 'session', 'dm', 'sfile', '404first', 'm405', 'rhook', 'st599', 'critical']
SESSION_SECRET = 'k8'


_sroot = {}


def static_root():
    """two small files for the handlers that answer with static_file (removed again at the end of every shard / replay)"""
    import tempfile
    if 'd' not in _sroot or not os.path.isdir(_sroot['d']):
        d = tempfile.mkdtemp(prefix='c08.', dir=os.environ.get('VERIF_WORK') or None)
        for name, data in (('doc.txt', b'document text'), ('blob.zzunknown', b'\x00\x01opaque')):
            with open(os.path.join(d, name), 'wb') as f:
                f.write(data)
            os.utime(os.path.join(d, name), (1_600_000_000, 1_600_000_000))
        _sroot['d'] = d
    return _sroot['d']


def drop_static_root():
    import shutil
    d = _sroot.pop('d', None)
    if d:
        shutil.rmtree(d, ignore_errors=True)


def src_prefix():
    return os.path.join(os.path.realpath(sut.SRC), 'ombott') + os.sep


def domain_of(host):
    """the application serves two tenants under their own domains (config.domain_map)"""
    return {'ta.example': 'ta', 'tb.example': 'tb'}.get(host)


def make_app(om, obs):
    app = om.Ombott({'domain_map': domain_of})

    def snap(tag, ident):
        rq, rs = app.request, app.response
        obs.setdefault(ident, []).append((tag, rq.path, rq.query_string, rq.get_cookie('sid'), rq.headers.get('X-Id'),
                                          rs.status_code, tuple(sorted(rs.headers.dict.items())),
                                          tuple(sorted(rs._cookies.keys())) if rs._cookies else ()))

    def getq():
        ident = app.request.query.get('x')
        snap('p1', ident)
        app.response.status = 201
        app.response.headers['X-Who'] = ident
        app.response.headers.append('X-Multi', 'a' + ident)
        snap('p2', ident)
        app.response.set_cookie('c' + ident, ident)
        snap('p3', ident)
        return 'getq:' + ident

    def form():
        ident = app.request.headers.get('X-Id')
        snap('p1', ident)
        f = app.request.forms
        app.response.headers['X-Form'] = f.get('a', '?')
        snap('p2', ident)
        return 'form:' + repr(sorted(f.items()))

    def upload():
        ident = app.request.headers.get('X-Id')
        snap('p1', ident)
        up = app.request.files['f']
        fl = up.file.read()
        tx = app.request.forms['t']
        snap('p2', ident)
        hdrs = sorted((k, str(getattr(v, 'value', v))) for k, v in up.headers.items())
        return b'upload:' + fl + b':' + tx.encode() + (':%s:%r' % (up.content_type, hdrs)).encode()

    def raiser():
        ident = app.request.headers.get('X-Id')
        snap('p1', ident)
        app.response.headers['X-Lost'] = 'must-not-appear'
        r = om.HTTPResponse('raised:' + ident, 202, X_R=ident)
        r.set_cookie('r' + ident, '1')
        raise r

    def crash():
        ident = app.request.headers.get('X-Id')
        snap('p1', ident)
        raise ValueError('boom ' + ident)

    def gen():
        ident = app.request.headers.get('X-Id')
        snap('p1', ident)
        app.response.headers['X-Gen'] = ident

        def g():
            yield 'gen:'
            yield ident
            yield ':' + app.request.path
        return g()

    def wild(name, page):
        ident = app.request.headers.get('X-Id')
        snap('p1', ident)
        return f'wild:{name}:{page}'
    def chunked():
        ident = app.request.headers.get('X-Id')
        snap('p1', ident)
        data = app.request.body.read()
        snap('p2', ident)
        return b'chunked:' + data

    def badform():
        ident = app.request.headers.get('X-Id')
        snap('p1', ident)
        return repr(sorted(app.request.forms.items()))
    def notmod():
        ident = app.request.headers.get('X-Id')
        snap('p1', ident)
        rs = app.response
        rs.headers['Content-Language'] = 'en-' + ident
        rs.headers['Last-Modified'] = 'Mon, 01 Jan 2024 00:00:0' + ident + ' GMT'
        rs.headers['X-Keep'] = ident
        rs.status = 304
        snap('p2', ident)
        return ''
    def media(label):
        def h(kind, name):
            ident = app.request.headers.get('X-Id')
            snap('p1', ident)
            return f'{label}:{kind}:{name}'
        return h
    # selector filters: one compiled `rex` filter is shared by the three routes (and by every thread)
    for i, label in enumerate(('image', 'document', 'raw'), 1):
        app.route('/media/<kind.rex((img)|(doc)|(raw))[%d]>/<name>' % i, 'GET', media(label))

    def session():
        ident = app.request.headers.get('X-Id')
        snap('p1', ident)
        s = app.request.get_cookie('sess', secret=SESSION_SECRET)
        s['visits'] += 1               # the handler edits what it was given: its own copy of the session
        s['trail'].append('page' + ident)
        snap('p2', ident)
        app.response.set_cookie('sess', s, secret=SESSION_SECRET)
        return 'session:' + repr(sorted(s.items()))
    app.route('/session', 'GET', session)

    def tenant(label):
        def h():
            ident = app.request.headers.get('X-Id')
            snap('p1', ident)
            app.response.set_cookie('tenant', label)
            return f'tenant {label} for {ident}'
        return h
    def stamp():
        # a before_request hook with a visible effect: every request of the application gets its own stamp
        app.response.headers['X-Stamped-For'] = app.request.headers.get('X-Id', '?')
    app.add_hook('before_request', stamp)
    app.route('/ta/dm', 'GET', tenant('A'))
    app.route('/tb/dm', 'GET', tenant('B'))
    # static_file looks at the request of the DEFAULT application: the file requests are served by that one (one route, registered once
    # per import; what its handler observes goes to the observations of the current execution)
    dapp = om.default_app()
    dapp.c08_obs = obs
    if not getattr(dapp, 'c08_routes', False):
        dapp.c08_routes = True

        def sfile():
            # request 1 downloads a text document, the others fetch a file of unknown type inline
            ident = dapp.request.headers.get('X-Id')
            dapp.c08_obs.setdefault(ident, []).append(('p1', dapp.request.path, dapp.request.query_string, dapp.response.status_code))
            if ident == '1':
                return om.static_file('doc.txt', root=static_root(), download='report-%s.txt' % ident)
            return om.static_file('blob.zzunknown', root=static_root())
        dapp.route('/sfile', 'GET', sfile)
    app.c08_default = dapp
    # an application whose 404 handler fails itself: its answers are last-resort pages (served by a server that, like wsgiref, adds
    # entries of its own to the header list it is given)
    capp = om.Ombott()

    @capp.error(404)
    def failing_404(res):
        raise RuntimeError('error handler failed')
    app.c08_critical = capp

    def st599():
        ident = app.request.headers.get('X-Id')
        snap('p1', ident)
        # a status code without a registered phrase: request 1 gives a phrase of its own, the others the bare number
        app.response.status = ('599 Upstream timed out for ' + ident) if ident == '1' else 599
        snap('p2', ident)
        return 'st599:' + ident
    app.route('/st599', 'GET', st599)
    app.route('/notmod', 'GET', notmod)
    # a route hook guards everything below /adm (403 without a token); /pub has no hook
    def guard(prefix):
        if app.request.query.get('token') != 'let-me-in':
            raise om.HTTPError(403, 'no token for ' + prefix)
        app.response.headers['X-Guard'] = 'passed ' + prefix
    app.on_route('/adm', guard)
    app.route('/adm/report', 'GET', lambda: 'the confidential report')
    app.route('/pub/info', 'GET', lambda: 'public information')
    # two routes with different method sets: a request with another method is told the methods of ITS route
    app.route('/reports', 'GET', lambda: 'reports')
    app.route('/jobs', ['POST', 'PUT'], lambda: 'jobs')
    app.route('/chunked', 'POST', chunked)
    app.route('/badform', 'POST', badform)
    app.route('/q', 'GET', getq)
    app.route('/form', 'POST', form)
    app.route('/upload', 'POST', upload)
    app.route('/raise', 'GET', raiser)
    app.route('/crash', 'GET', crash)
    app.route('/gen', 'GET', gen)
    app.route('/u/<name>/<page>', 'GET', wild)
    app.route('/u/admin/settings', 'GET', lambda: 'static-admin')
    return app


def environ_for(kind, ident):
    h = {'X-Id': ident, 'Cookie': 'sid=s' + ident}
    if kind == 'getq':
        return wsgi.environ('GET', '/q', qs='x=' + ident, headers=h)
    if kind == 'form':
        return wsgi.environ('POST', '/form', body=('a=%s&b=2' % ident).encode(), ctype='application/x-www-form-urlencoded', headers=h)
    if kind == 'upload':
        # request 1 uploads an image with an extra part header, the other requests a bare file part
        return wsgi.environ('POST', '/upload', body=(MP_RICH if ident == '1' else MP).replace(b'%d', ident.encode()), ctype='multipart/form-data; boundary=BND', headers=h)
    if kind == 'raise':
        return wsgi.environ('GET', '/raise', headers=h)
    if kind == 'crash':
        return wsgi.environ('GET', '/crash', qs='who=' + ident, headers=h)
    if kind in ('404', '404first'):       # ('404first': every execution starts from a fresh import - the first error pages of a process)
        return wsgi.environ('GET', '/nothing/' + ident, headers=h)
    if kind == 'gen':
        return wsgi.environ('GET', '/gen', qs='g=' + ident, headers=h)
    if kind == 'chunked':
        # chunk sizes with two hex digits (0x1a, 0x10) and a body that differs per request
        p1 = (ident * 26).encode()[:26]
        p2 = (ident * 16).encode()[:16]
        raw = b'1a\r\n' + p1 + b'\r\n10;ext=' + ident.encode() + b'\r\n' + p2 + b'\r\n0\r\n\r\n'
        return wsgi.environ('POST', '/chunked', body=raw, chunked=True, headers=h)
    if kind in ('badchunkj', 'badchunkh'):
        # malformed chunked framing (mapped to the shared 400 object of errors_map); JSON or HTML error report, URLs of different length
        h2 = dict(h, Accept='application/json') if kind == 'badchunkj' else h
        return wsgi.environ('POST', '/chunked', qs='who=' + ident * (3 if kind == 'badchunkh' else 1), body=b'zz\r\n', chunked=True, headers=h2)
    if kind == 'rhook':
        # request 1 asks for the guarded page without a token, request 2 for the public page, request 3 for the guarded page with the token
        return wsgi.environ('GET', '/pub/info' if ident == '2' else '/adm/report', qs='token=let-me-in' if ident == '3' else 'r=' + ident, headers=h)
    if kind == 'st599':
        return wsgi.environ('GET', '/st599', qs='s=' + ident, headers=h)
    if kind == 'critical':
        return wsgi.environ('GET', '/nowhere/' + ident * (7 * int(ident)), headers=h)
    if kind == 'm405':
        return wsgi.environ('DELETE', '/reports' if ident == '1' else '/jobs', qs='m=' + ident, headers=h)
    if kind == 'sfile':
        return wsgi.environ('GET', '/sfile', qs='f=' + ident, headers=h)
    if kind == 'notmod':
        return wsgi.environ('GET', '/notmod', qs='n=' + ident, headers=h)
    if kind == 'dm':
        # requests 1 and 2 come in for tenant A's domain, request 3 for tenant B's
        return wsgi.environ('GET', '/dm', qs='d=' + ident, headers=dict(h, Host='tb.example' if ident == '3' else 'ta.example'))
    if kind == 'rex':
        return wsgi.environ('GET', '/media/%s/n%s' % (['img', 'doc', 'raw'][int(ident) % 3], ident), headers=h)
    if kind == 'session':
        # both requests come from one browser session: the same signed cookie (a dict) is sent by each of them
        return wsgi.environ('GET', '/session', qs='s=' + ident, headers=dict(h, Cookie='sid=s%s; %s' % (ident, session_cookie())))
    if kind == 'badform':
        # a multipart form whose field header is malformed in a request-specific way; the client asks for JSON errors
        h2 = dict(h, Accept='application/json')
        body = b'--BND\r\nContent-Disposition form-data name=private-field-of-' + ident.encode() + b'\r\n\r\nv\r\n--BND--\r\n'
        return wsgi.environ('POST', '/badform', body=body, ctype='multipart/form-data; boundary=BND', headers=h2)
    if kind == 'wild':
        return wsgi.environ('GET', '/u/alice%s/inbox' % ident if ident == '1' else '/u/admin/settingsx', headers=h)
    raise AssertionError(kind)


_sess = {}


def session_cookie():
    om = sut.load()
    if _sess.get('om') is not om:
        r = om.HTTPResponse()
        r.set_cookie('sess', {'visits': 1, 'trail': ['login']}, secret=SESSION_SECRET)
        _sess['om'] = om
        _sess['pair'] = 'sess=' + r._cookies['sess'].coded_value
    return _sess['pair']


def serve(app, kind, ident):
    if kind == 'critical':
        c = wsgi.call(app.c08_critical, environ_for(kind, ident), server_edits_headers=True)
    else:
        c = wsgi.call(app.c08_default if kind == 'sfile' else app, environ_for(kind, ident))
    if c.escaped is not None:
        return ('escaped', repr(c.escaped), b'')
    return (c.status, tuple((str(a), str(b)) for a, b in (c.headers or [])), c.body)


_solo = {}


FRESH_KINDS = {'badform', 'badchunkj', 'badchunkh', 'session', 'upload', '404first', 'sfile', 'st599', 'critical'}     # requests answered through the shared error objects of errors_map:
#                                                          every execution (and the stand-alone run) starts from a fresh import


def solo(om, kind, ident):
    key = (kind, ident)
    if key not in _solo:
        if kind in FRESH_KINDS:
            om = sut.load(fresh=True)
        sut.restore_globals()
        obs = {}
        app = make_app(om, obs)
        resp = serve(app, kind, ident)
        _solo[key] = (resp, obs.get(ident, obs.get(None)))
    return _solo[key]


def run_exec(om, kinds, prefix, opcode=False, gran='line'):
    if FRESH_KINDS.intersection(kinds):
        om = sut.load(fresh=True)
        sut.snapshot_globals()
    sut.restore_globals()
    obs = {}
    app = make_app(om, obs)
    idents = [str(i + 1) for i in range(len(kinds))]
    progs = [(lambda k=k, i=i: serve(app, k, i)) for k, i in zip(kinds, idents)]
    sp = src_prefix()
    s = Scheduler(progs, prefix, lambda fn: fn.startswith(sp) or fn == HERE,
                  opcode_files=('common_helpers.py', 'response.py') if opcode else (), granularity=gran)
    x = s.run()
    x.results['obs'] = obs
    return x


def judge(om, kinds, x):
    if x.hung:
        return 'hang', 'a thread did not finish (deadlock or livelock)'
    for t, e in x.errors.items():
        return 'thread-error', f'thread {t} ({kinds[t]}) raised {type(e).__name__}: {e}'
    for t, k in enumerate(kinds):
        ident = str(t + 1)
        exp_resp, exp_obs = solo(om, k, ident)
        got_resp = x.results.get(t)
        got_obs = x.results['obs'].get(ident)
        if got_obs != exp_obs:
            return 'handler-saw-foreign-data', (f'request {ident} ({k}) handler observations {got_obs!r}; served alone: {exp_obs!r}')
        if got_resp != exp_resp:
            what = 'status' if got_resp[0] != exp_resp[0] else ('headers' if got_resp[1] != exp_resp[1] else 'body')
            return 'response-' + what, (f'request {ident} ({k}) answered {got_resp[0]} {list(got_resp[1])!r} {got_resp[2][:80]!r}; '
                                        f'served alone: {exp_resp[0]} {list(exp_resp[1])!r} {exp_resp[2][:80]!r}')
    return None


QUICK_PAIRS = [('getq', k) for k in KINDS[:8]] + [('raise', 'crash'), ('form', 'upload'), ('wild', 'wild'), ('404', 'crash'), ('gen', 'gen'),
               ('chunked', 'chunked'), ('badform', 'badform'), ('badchunkj', 'badchunkh'), ('getq', 'notmod'), ('notmod', 'crash'),
               ('rex', 'rex'), ('session', 'session'), ('upload', 'upload'), ('sfile', 'sfile'), ('404first', '404first'), ('m405', 'm405'), ('rhook', 'rhook'), ('st599', 'st599'), ('critical', 'critical')]


def pairs():
    out = []
    for i, a in enumerate(KINDS):
        for b in KINDS[i:]:
            out.append((a, b))
    return out


def _split(om, kinds, bound, nsplit, flag, gran='line'):
    """shards = (start thread, range of the first deviating scheduling point)"""
    out = []
    for start in range(len(kinds)):
        npts = len(run_exec(om, kinds, (start,), flag is True, gran).points)
        # the work below a first deviation at point i is ~ proportional to the points left: finer ranges first
        edges = [1]
        k = max(1, nsplit // len(kinds))
        for j in range(1, k + 1):
            edges.append(1 + int((npts - 1) * (1 - (1 - j / k) ** (2 if bound >= 2 else 1))))
        for lo, hi in zip(edges, edges[1:]):
            if hi > lo:
                out.append(('pair', kinds, bound, (start, lo), hi, flag))
    return out


def shards(tier, seed):
    try:
        return _shards(tier, seed)
    finally:
        drop_static_root()       # (measuring runs in this process; every worker makes its own files)


def _shards(tier, seed):
    om = sut.load()
    sut.snapshot_globals()
    out = []
    if tier == 'quick':
        # one pair with two preemptions at function-entry granularity (the longest shards first)
        for kinds in QUICK_PAIRS:
            out += _split(om, kinds, 1, 4, False)
        out += _split(om, ('dm', 'dm', 'dm'), 1, 12, False)
    else:
        # two preemptions at function-entry granularity: all pairs of the first ten kinds and the pairs of the quick tier
        deep = [p for p in pairs() if p[0] in KINDS[:10] and p[1] in KINDS[:10]]
        deep += [p for p in QUICK_PAIRS if p not in deep]
        for kinds in deep:
            out += _split(om, kinds, 2, 16, 'call', 'call')
        for kinds in (('getq', 'raise'), ('wild', 'wild')):
            out += _split(om, kinds, 2, 64, False)
        for kinds in pairs():
            out += _split(om, kinds, 1, 2, False)
        for kinds in (('getq', 'raise', 'crash'), ('form', 'upload', 'gen'), ('wild', 'wild', '404'), ('getq', 'getq', 'getq')):
            out += _split(om, kinds, 1, 16, False)
        for kinds in (('getq', 'raise'), ('crash', '404')):
            out += _split(om, kinds, 1, 16, True)
    # seed extension: one more triple at bound 1
    extra = [('raise', 'getq', '404'), ('gen', 'crash', 'form'), ('upload', 'wild', 'getq'), ('404', '404', 'crash')][seed % 4]
    out = _split(om, extra, 1, 24, False) + out      # three threads: the longest shards go first
    return out


def bounds(tier, seed):
    return {'request_kinds': KINDS, 'pairs': len(pairs()), 'preemption_bound': '1 at line granularity for 25 pairs and two triples' if tier == 'quick' else '2 at function-entry granularity for all pairs of the first ten kinds and the pairs of the quick tier, 2 at line granularity for two pairs, 1 at line granularity for all 210 pairs and five triples, 1 at opcode granularity (plumbing files) for two pairs',
            'granularity': 'source line' + ('' if tier == 'quick' else '; opcode events in common_helpers.py/response.py for two pairs'),
            'threads': '2' if tier == 'quick' else '2-3'}


FLOORS = {'executions': 10000, 'with_preemption': 10000, 'both_inside_framework': 10000}


def work(spec):
    try:
        return _work(spec)
    finally:
        drop_static_root()


def _work(spec):
    _, kinds, bound, lo, hi, opcode = spec
    gran = 'line'
    if opcode == 'call':
        gran, opcode = 'call', False
    res = core.new_result()
    om = sut.load()
    sut.snapshot_globals()
    c = res['counters']
    n = 0
    start, lo = lo
    example = None
    for prefix, x in explore(lambda p: run_exec(om, kinds, p, opcode, gran), bound, first_points=(lo, hi), base=(start,)):
        n += 1
        res['states'] += 1
        res['transitions'] += len(x.points)
        c['executions'] += 1
        if x.switches and example is None and len(prefix) > 2:
            example = [(i, ch) for i, ch in enumerate(x.choices) if ch]
        if x.switches:
            c['with_preemption'] += 1
            res['nontrivial'] += 1
            # a preemption happened while the other thread had not finished: both were inside __call__
            c['both_inside_framework'] += 1
        v = judge(om, kinds, x)
        res['outcomes'].add(f'{"+".join(kinds)} switches={min(x.switches, 3)} {"ok" if v is None else v[0]}')
        if v is not None:
            core.add_violation(res, {'kinds': list(kinds), 'choices': list(x.choices), 'opcode': opcode, 'gran': gran},
                               f'{kinds} schedule with {x.switches} switches: {v[1]}', sig=v[0])
        # determinism self-test on a fixed stride (not the verdict)
        if n % 97 == 0:
            y = run_exec(om, kinds, tuple(x.choices), opcode, gran)
            if y.choices != x.choices or (judge(om, kinds, y) is None) != (v is None):
                res['notes'].append(f'nondeterministic replay for {kinds} {x.choices[:20]}')
                c['nondeterministic_replays'] += 1
    res['execs'] = c['executions']
    if c['nondeterministic_replays']:
        res['internal_error'] = 'replaying a recorded schedule did not give the same execution'
    core.add_sample(res, {'threads': list(kinds), 'bound': bound, 'first_thread': start, 'first_deviation_points': [lo, hi], 'executions': n,
                          'example_schedule_switches_(point,thread_choice)': example})
    return res


def replay(case):
    try:
        return _replay(case)
    finally:
        drop_static_root()


def _replay(case):
    om = sut.load()
    sut.snapshot_globals()
    _solo.clear()
    kinds = tuple(case['kinds'])
    x = run_exec(om, kinds, tuple(case['choices']), case.get('opcode', False), case.get('gran', 'line'))
    v = judge(om, kinds, x)
    if v is None:
        return None
    sw = [(i, c) for i, c in enumerate(x.choices) if c]
    return (f'requests {list(kinds)} on one application, threads switched at scheduling points {sw[:12]} '
            f'(of {len(x.choices)}): {v[1]}')

MANIFEST['text'] += ' 20 request kinds, among them static_file downloads through the default application, the first error pages of a process, 405 answers with different Allow sets and routes guarded by route hooks (25 pairs + two triples in the quick tier).'
MANIFEST['text'] += ' Kinds st599 (reason phrase given by one request only) and critical (last-resort pages through a header-list-editing server) joined in the tenth wave.'
