"""C09 — each response depends on its own request only; retained state is bounded.

Engine: E-HIST over request histories served by ONE application on ONE thread.  Every history is replayed on a
freshly imported ombott (all module-level state rebuilt) and its default application.  Request kinds: plain 200;
200 setting status, header and cookie; raised HTTPResponse with header and cookie; 404; 405; undecodable path;
malformed chunked body (400); oversized body (413); handler crash (500); 404 and 413 with Accept: application/json;
HEAD; redirect; urlencoded form; multipart upload.
Oracle per transition: the complete response (status line, header list, body) of request r after history h equals
r's response on a fresh process state.  Oracle for retention: BFS over histories deduplicated by a canonical
rendering of everything reachable from the application and the ombott modules (including exception traceback
lengths); it must reach a fixpoint (a level that adds no new state) within the depth bound; and for every kind k the
history k^N keeps the number of live per-request objects (weak references to environ dicts and input streams after
gc.collect()) below a constant.
"""
import gc
import io
import weakref

from vf import core, sut, wsgi, refmp
from vf.canon import Canon
from vf.hist import Search

ID = 'C09'
TITLE = 'Each response depends on its own request only; retained state is bounded'
ENGINE = 'E-HIST (BFS over request histories on one application/thread, fresh import per replay, canonical retained state)'
RULE = ('states = distinct canonical renderings of the retained state (application + ombott module state incl. traceback '
        'lengths) reached; transitions = requests served from those states, each compared with the same request on a fresh '
        'process state; non-trivial = transitions from a non-initial state')
ASSUMPTIONS = ['one worker thread; the default application with max_body_size=200; debug off',
               'retention is judged by closure of the canonical state space within the depth bound and by k^N runs (N=2000 / 5000)']
MANIFEST = {
    'engines': ['E-HIST'],
    'technique': 'explicit-state BFS over request histories on the real application (fresh import per replay), states '
                 'deduplicated by a canonical walk of all retained objects; per-transition differential oracle against a '
                 'fresh process; fixpoint = bounded retained state; k^N liveness runs with weak references',
    'text': 'Over 40 request kinds: all histories of 2 requests and all of 3 whose first two belong to the 21 kinds that leave something '
            'behind (quick); all of 3, all of 4 whose first three are such kinds, and BFS with state merging to '
            'depth 6 (thorough); every served response is compared with the response of the same request on a freshly '
            'imported framework; each kind is repeated N times and the live per-request objects are counted.',
    'note': 'Bounds: 40 request kinds, depth as stated, N=2000 (thorough 5000). Trusted: CPython gc/weakref, the canonicaliser.',
}

_canon = Canon(tb=True)


class Env(dict):
    __slots__ = ('__weakref__',)


class Stream(io.BytesIO):
    pass


MP_BODY, _ = refmp.build(b'BND', [(refmp.cd('t'), b'v'), (refmp.cd('f', 'n.bin', 'text/plain'), b'data')], epilogue=b'\r\n')
MP_RICH, _ = refmp.build(b'BND', [(refmp.cd('f', 'pic.png', 'image/png') + b'\r\nX-Upload-Token: alice-s3cr3t', b'PNGDATA')], epilogue=b'\r\n')
MP_BARE, _ = refmp.build(b'BND', [(refmp.cd('f', 'plain.bin'), b'BIN')], epilogue=b'\r\n')
MP_VAR, _ = refmp.build(b'BND', [(refmp.cd('f', 'v.bin') + b'\r\nX-H{i}: v{i}', b'V')], epilogue=b'\r\n')
SESSION_SECRET = 'k9'
KINDS = [
    ('ok', 'GET', '/ok', {}),
    ('set', 'GET', '/set', {'qs': 'a=1', 'headers': {'Cookie': 'k=v'}}),
    ('raise', 'GET', '/raise', {}),
    ('404', 'GET', '/missing', {}),
    ('405', 'GET', '/only-post', {}),
    ('badpath', 'GET', '/bad\xe9path', {}),
    ('400', 'POST', '/body', {'body': b'zz\r\n', 'chunked': True}),
    ('413', 'POST', '/body', {'body': b'0123456789abcdef' * 14}),
    ('500', 'GET', '/crash', {}),
    ('404json', 'GET', '/missing/json', {'headers': {'Accept': 'application/json'}}),
    ('413json', 'POST', '/body', {'body': b'0123456789abcdefgh' * 14, 'headers': {'Accept': 'application/json'}, 'qs': 'long=query-string'}),
    ('head', 'HEAD', '/ok', {}),
    ('redirect', 'GET', '/redirect', {}),
    ('form', 'POST', '/form', {'body': b'a=1&a=2', 'ctype': 'application/x-www-form-urlencoded'}),
    ('upload', 'POST', '/upload', {'body': MP_BODY[:8], 'ctype': 'multipart/form-data; boundary=BND'}),
    ('upload-full', 'POST', '/upload', {'body': MP_BODY, 'ctype': 'multipart/form-data; boundary=BND'}),
    # uploads whose part headers differ (the handler reports the headers of the part), a signed session cookie the handler edits
    ('upload-rich', 'POST', '/upinfo', {'body': MP_RICH, 'ctype': 'multipart/form-data; boundary=BND'}),
    ('upload-bare', 'POST', '/upinfo', {'body': MP_BARE, 'ctype': 'multipart/form-data; boundary=BND'}),
    ('session', 'GET', '/session', {'headers': {'Cookie': '@session'}}),
    ('uploadvar', 'POST', '/upinfo', {'body': MP_VAR, 'ctype': 'multipart/form-data; boundary=BND'}),
    # body errors that carry a text of their own (invalid JSON; a multipart part without a name) - '400' above carries none
    ('badjson', 'POST', '/json', {'body': b'{"alice-secret": ', 'ctype': 'application/json'}),
    ('mp-noname', 'POST', '/upinfo', {'body': b'--BND\r\nContent-Disposition: form-data; filename="salary-of-alice.xls"\r\n\r\nx\r\n--BND--\r\n',
                                       'ctype': 'multipart/form-data; boundary=BND'}),
    # an upload whose boundary is different at every repetition (clients pick random boundaries)
    ('uploadbvar', 'POST', '/upinfo', {'body': MP_BARE.replace(b'BND', b'BND{i}'), 'ctype': 'multipart/form-data; boundary=BND{i}'}),
    # static routes; a route hook below /acct adds a keyword argument for the handler through request.url_args
    ('acct', 'GET', '/acct/settings', {'headers': {'X-User': 'alice'}}),
    ('about', 'GET', '/about', {}),
    ('echo', 'GET', '/echo', {}),
    # a status code without a registered phrase: once with the handler's own phrase, once as a bare number
    ('st599s', 'GET', '/st599s', {'qs': 'why=backend-db7-refused'}),
    ('st599n', 'GET', '/st599n', {}),
    # a handler that keeps a copy of its request and listens for changes of it; a handler that edits its request's environ
    ('listen', 'GET', '/listen', {'qs': 'ticket={i}'}),
    ('setenv', 'GET', '/setenv', {}),
    # another application of the process, running in debug mode, crashes with a text of its own
    ('dbgapp', 'GET', '/boom', {'qs': 'token=4711-of-another-client'}),
    # a static file served plainly, with a Range and with If-Modified-Since; literal and wildcard sibling routes
    ('static', 'GET', '/static/f.txt', {}),
    ('static-range', 'GET', '/static/f.txt', {'headers': {'Range': 'bytes=2-5'}}),
    ('static-ims', 'GET', '/static/f.txt', {'headers': {'If-Modified-Since': 'Fri, 01 Jan 2100 00:00:00 GMT'}}),
    ('user-me', 'GET', '/user/me', {}),
    ('user-7', 'GET', '/user/7', {}),
    # requests whose path / query string changes with every repetition ({i} = repetition counter)
    ('anonvar', 'GET', '/assets/f{i}.css', {}),
    ('404var', 'GET', '/nope/{i}', {}),
    ('okvar', 'GET', '/ok', {'qs': 'n={i}'}),
    ('namedvar', 'GET', '/item/{i}', {}),
    # handlers that set response headers to numbers and flags: equal values of different type (True / 1.0, 0.0 / -0.0) in different requests
    # one URL failing for request-specific reasons (the reason is quoted in the JSON error document)
    ('crashj-a', 'GET', '/crashj', {'headers': {'Accept': 'application/json', 'X-Why': 'card 4111-of-alice declined'}}),
    ('crashj-b', 'GET', '/crashj', {'headers': {'Accept': 'application/json', 'X-Why': 'stock empty'}}),
    ('hv-flag', 'GET', '/hv/flag', {}),
    ('hv-num', 'GET', '/hv/num', {}),
    # what the request says about its client (credentials, proxies, script name, an attribute the application put on the request):
    # once for an authenticated client behind proxies, once for an anonymous one
    ('who-a', 'GET', '/whoami', {'headers': {'Authorization': 'Basic YWxpY2U6czNjcjN0', 'X-Forwarded-For': '10.0.0.7, 10.9.9.9', 'X-User': 'alice',
                                              'X-Requested-With': 'XMLHttpRequest', 'X-Script-Name': '/tenant-alice'},
                                  'REMOTE_ADDR': '192.0.2.1', 'qs': 'view=private'}),
    ('who-b', 'GET', '/whoami', {}),
    # a prepared answer object (built once, returned for every logout) that carries a cookie of its own; the handler also puts a cookie
    # on the application's response before returning it
    ('logout-a', 'GET', '/logout', {'qs': 'user=alice'}),
    ('logout-b', 'GET', '/logout', {'qs': 'user=bob'}),
    ('bye', 'GET', '/bye', {}),
    # request methods outside the usual seven, another one at every repetition: served by an ANY route / refused with 405
    ('verbvar', 'MV{i}', '/anyverb', {}),
    ('verbvar405', 'QX{i}', '/ok', {}),
    # a body above the limit refused while the ANSWER is produced (a generator handler reads it lazily) / refused inside a handler
    # that catches the error itself and answers on its own
    ('413lazy', 'POST', '/lazybody', {'body': b'0123456789abcdef' * 14}),
    ('413own', 'POST', '/ownbody', {'body': b'0123456789abcdef' * 14, 'qs': 'attempt={i}'}),
]
NK = len(KINDS)


_sroot = {}


def _static_root():
    import os
    import tempfile
    if 'd' not in _sroot or not os.path.isdir(_sroot['d']):
        d = tempfile.mkdtemp(prefix='c09.', dir=os.environ.get('VERIF_WORK') or None)
        p = os.path.join(d, 'f.txt')
        with open(p, 'wb') as f:
            f.write(bytes(range(48, 48 + 40)))
        os.utime(p, (1_600_000_000, 1_600_000_000))
        _sroot['d'] = d
    return _sroot['d']


def fresh_app():
    om = sut.load(fresh=True)
    app = om.default_app()
    app.setup({'max_body_size': 200})

    def ok():
        return 'ok'

    def setter():
        app.response.status = 201
        app.response.headers['X-Set'] = app.request.query.get('a', '?')
        app.response.set_cookie('c', '1')
        return 'set:' + (app.request.get_cookie('k') or '')

    def raiser():
        r = om.HTTPResponse('raised', 202, X_R='1')
        r.set_cookie('rc', '2')
        raise r

    def body():
        return app.request.body.read()

    def crash():
        raise ValueError('boom')

    def redir():
        om.redirect('/target')

    def form():
        return repr(sorted(app.request.forms.items()))

    def upload():
        return repr(sorted(app.request.forms.items())) + repr(sorted(app.request.files))
    def upinfo():
        f = app.request.files['f']
        return repr((f.filename, f.content_type, sorted((k, str(getattr(v, 'value', v))) for k, v in f.headers.items()), f.file.read()))

    def session():
        s = app.request.get_cookie('sess', secret=SESSION_SECRET)
        s['visits'] += 1
        s['trail'].append('page')
        app.response.set_cookie('sess', s, secret=SESSION_SECRET)
        return 'session:' + repr(sorted(s.items()))
    app.route('/upinfo', 'POST', upinfo)

    def acct_hook(prefix):
        app.request.url_args['user'] = app.request.headers.get('X-User', '?')
    app.on_route('/acct', acct_hook)
    app.route('/acct/settings', 'GET', lambda **kw: 'settings ' + repr(sorted(kw.items())))
    app.route('/about', 'GET', lambda: 'about us')

    def hv(values):
        def h():
            for name, v in values:
                app.response.headers[name] = v
            return 'header values set'
        return h
    app.route('/hv/flag', 'GET', hv([('X-Cached', True), ('X-Offset', 0.0), ('X-Count', 1)]))
    app.route('/hv/num', 'GET', hv([('X-Cached', 1.0), ('X-Offset', -0.0), ('X-Count', True)]))
    app.route('/echo', 'GET', lambda **kw: 'echo ' + repr(sorted(kw.items())))

    def st599s():
        app.response.status = '599 ' + app.request.query.get('why', 'no reason')
        return 'refused'

    def st599n():
        app.response.status = 599
        return 'refused'
    def listen():
        snap = app.request.copy()
        ticket = app.request.query.get('ticket', '?')
        snap.on('env_changed', lambda *a: app.response.headers.__setitem__('X-Audit', 'ticket-' + ticket))
        return 'listening'

    def setenv():
        app.request['HTTP_X_TRACE'] = 'trace-1'
        return 'trace set'
    app.route('/listen', 'GET', listen)
    app.route('/setenv', 'GET', setenv)

    def whoami():
        rq = app.request
        seen = getattr(rq, 'user', None)                 # nobody has put it on THIS request yet
        if 'X-User' in rq.headers:
            rq.user = rq.headers['X-User']
        return repr((seen, getattr(rq, 'user', None), rq.auth, rq.remote_route, rq.remote_addr, rq.is_xhr, rq.script_name, rq.url,
                     rq.fullpath, sorted(k for k in rq.keys() if k.startswith('HTTP_')), rq.content_type, rq.content_length))
    app.route('/whoami', 'GET', whoami)
    prepared = om.HTTPResponse('signed out', 200, X_Flow='logout')
    prepared.set_cookie('sid', 'deleted')

    def logout():
        app.response.set_cookie('flash', 'goodbye-' + app.request.query.get('user', '?'))
        return prepared
    app.route('/logout', 'GET', logout)
    app.route('/bye', 'GET', lambda: prepared)
    app.route('/anyverb', 'ANY', lambda: 'any verb: ' + app.request.method)

    def lazybody():
        yield app.request.body.read()

    def ownbody():
        try:
            return app.request.body.read()
        except om.HTTPError as e:
            return 'refused politely: %s' % e.status_code
    app.route('/lazybody', 'POST', lazybody)
    app.route('/ownbody', 'POST', ownbody)
    dbg = om.Ombott({'debug': True})

    def boom():
        raise RuntimeError('cannot process ' + dbg.request.query_string)
    dbg.route('/boom', 'GET', boom)
    app.c09_debug_app = dbg
    app.route('/st599s', 'GET', st599s)
    app.route('/st599n', 'GET', st599n)
    app.route('/json', 'POST', lambda: repr(app.request.json))
    app.route('/session', 'GET', session)
    app.route('/ok', 'GET', ok)
    app.route('/set', 'GET', setter)
    app.route('/raise', 'GET', raiser)
    app.route('/only-post', 'POST', ok)
    app.route('/body', 'POST', body)
    app.route('/crash', 'GET', crash)

    def crashj():
        raise ValueError(app.request.headers.get('X-Why', '?'))
    app.route('/crashj', 'GET', crashj)
    app.route('/redirect', 'GET', redir)
    app.route('/form', 'POST', form)
    app.route('/upload', 'POST', upload)
    static_root = _static_root()

    def static(name):
        r = om.static_file(name, static_root)
        if 'Date' in r.headers:
            del r.headers['Date']           # wall-clock: not a function of the request
        return r
    app.route('/static/<name>', 'GET', static)
    app.route('/user/me', 'GET', lambda: 'me')
    app.route('/user/<uid>', 'GET', lambda uid: 'profile of ' + uid)
    app.route('/assets/<:path>', 'GET', ok)
    app.route('/item/<n:int>', 'GET', lambda n: 'item')
    return om, app


def serve(app, k, refs=None, i=0):
    name, method, path, kw = KINDS[k]
    kw = dict(kw)
    path = path.replace('{i}', str(i))
    method = method.replace('{i}', str(i))
    if 'qs' in kw:
        kw['qs'] = kw['qs'].replace('{i}', str(i))
    if 'ctype' in kw:
        kw['ctype'] = kw['ctype'].replace('{i}', str(i))
    body = kw.pop('body', None)
    if body is not None and b'{i}' in body:
        body = body.replace(b'{i}', str(i).encode())
    if kw.get('headers', {}).get('Cookie') == '@session':
        kw['headers'] = dict(kw['headers'], Cookie=session_cookie(app))
    stream = Stream(body or b'')
    env = wsgi.environ(method, path, input=stream, clen=(len(body) if body is not None and not kw.get('chunked') else None), **kw)
    env = Env(env)
    if refs is not None:
        refs.append(weakref.ref(env))
        refs.append(weakref.ref(stream))
    c = wsgi.call(app.c09_debug_app if name == 'dbgapp' else app, env)
    if c.escaped is not None:
        return ('escaped', repr(c.escaped), b'')
    return (c.status, tuple((str(a), str(b)) for a, b in (c.headers or [])), c.body)


_sess = {}


def session_cookie(app):
    """the Cookie header of a browser session: a signed dict, the same for every request of the kind"""
    om = sut.load()
    if _sess.get('om') is not om:
        r = om.HTTPResponse()
        r.set_cookie('sess', {'visits': 1, 'trail': ['login']}, secret=SESSION_SECRET)
        _sess['om'] = om
        _sess['pair'] = 'sess=' + r._cookies['sess'].coded_value
    return _sess['pair']


def build(hist):
    om, app = fresh_app()
    out = []
    for k in hist:
        out.append(serve(app, k))
    return om, app, out


def state_key(obj):
    om, app, out = obj
    mods = {}
    import sys
    for name, mod in sorted(sys.modules.items()):
        if name == 'ombott' or name.startswith('ombott.'):
            mods[name] = {k: v for k, v in vars(mod).items()
                          if not k.startswith('__') and not isinstance(v, (type, type(sys))) and not callable(v)}
            mods[name + ' (hidden)'] = hidden_state(mod, name)
    return _canon([app, mods])


_CONTAINERS = (list, dict, set, bytearray)


def hidden_state(mod, modname):
    """state that lives behind the module's functions and classes: memo caches (functools), mutable default arguments,
    containers captured in closures, container-valued class attributes"""
    import types
    out = {}

    def of_function(label, f):
        ci = getattr(f, 'cache_info', None)
        if ci is not None:
            try:
                out[label + ' cache entries'] = [0] * ci().currsize        # one node per entry: the retained-state SIZE follows the cache
            except Exception:   # noqa
                pass
            f = getattr(f, '__wrapped__', f)
        if not isinstance(f, types.FunctionType):
            return
        for i, d in enumerate(f.__defaults__ or ()):
            if isinstance(d, _CONTAINERS):
                out[f'{label} default {i}'] = d
        for k, d in (f.__kwdefaults__ or {}).items():
            if isinstance(d, _CONTAINERS):
                out[f'{label} kwdefault {k}'] = d
        for i, cell in enumerate(f.__closure__ or ()):
            try:
                d = cell.cell_contents
            except ValueError:
                continue
            if isinstance(d, _CONTAINERS):
                out[f'{label} closure {i}'] = d
    for k, v in vars(mod).items():
        if k.startswith('__'):
            continue
        if isinstance(v, type) and getattr(v, '__module__', '') == modname:
            for ck, cv in vars(v).items():
                if ck.startswith('__'):
                    continue
                if isinstance(cv, _CONTAINERS):
                    out[f'{k}.{ck}'] = cv
                elif isinstance(cv, (types.FunctionType, staticmethod, classmethod)) or hasattr(cv, 'cache_info'):
                    of_function(f'{k}.{ck}', getattr(cv, '__func__', cv))
        elif callable(v) and getattr(v, '__module__', modname) == modname:
            of_function(k, v)
    return out


_solo = {}


def solo(k):
    if k not in _solo:
        om, app = fresh_app()
        _solo[k] = serve(app, k)
    return _solo[k]


# the kinds that leave something behind (set a status / header / cookie, fail, carry a body, touch a cache): longer histories start
# with these; the LAST request of a history is always any kind
CORE = ['set', 'raise', 'badpath', '400', '413', '500', '404json', '413json', 'redirect', 'form', 'upload-full', 'upload-rich', 'session',
        'static-range', 'badjson', 'mp-noname', 'acct', 'st599s', 'user-me', 'listen', 'dbgapp']


def core_idx():
    names = [k[0] for k in KINDS]
    return [names.index(n) for n in CORE]


def shards(tier, seed):
    out = []
    ci = core_idx()
    for a in range(NK):
        if tier == 'quick':
            out.append(('seqs', (a,), 2))                  # every pair of kinds
        else:
            for b0 in range(0, NK, 7):
                out.append(('seqs', (a,), 3, (b0, min(b0 + 7, NK))))      # every triple of kinds
        out.append(('growth', a, None))
    for a in ci:
        for b in ci:
            if tier == 'quick':
                out.append(('seqs', (a, b), 3))            # triples whose first two requests are core kinds
            else:
                for c3 in ci:
                    out.append(('seqs', (a, b, c3), 4))    # quadruples whose first three requests are core kinds
    if tier == 'thorough':
        out += [('bfs', k, 6) for k in range(NK)]
    n = 2000 if tier == 'quick' else 5000
    for k in range(NK):
        out.append(('repeat', k, n))
    # seed extension: alternating pairs of kinds repeated (a, b)^N/2
    for j in range(3):
        a = (seed * 3 + j) % NK
        b = (seed * 5 + 2 * j + 1) % NK
        out.append(('repeat2', (a, b), n // 2))
    return out


def bounds(tier, seed):
    return {'kinds': [k[0] for k in KINDS], 'core_kinds': CORE,
            'depth': ('all histories of 2 requests; all of 3 whose first two are core kinds' if tier == 'quick' else
                      'all histories of 3 requests; all of 4 whose first three are core kinds; BFS with state merging to depth 6'), 'repeat_N': 2000 if tier == 'quick' else 5000,
            'live_object_limit': 4}


FLOORS = {'compared_responses': 500, 'after_error_history': 100, 'repeat_runs': 10, 'growth_sequences': 100}
LIVE_LIMIT = 4
GROWTH_TOLERANCE = 16     # canonical nodes; one retained node per request would be N/2 >= 1000


def describe(resp):
    st, headers, body = resp
    return f'{st} {list(headers)!r} body={body[:70]!r}{"..." if len(body) > 70 else ""} ({len(body)} bytes)'


def size_of(key):
    n = 0
    stack = [key]
    while stack:
        x = stack.pop()
        n += 1
        if isinstance(x, tuple):
            stack.extend(x)
    return n


def growth(seq, reps=(2, 4, 8)):
    """-> ([sizes], stable?)  stable = the canonical retained state after s^4 equals the one after s^8"""
    keys = []
    for r in reps:
        obj = build(tuple(seq) * r)
        keys.append(state_key(obj))
    return [size_of(k) for k in keys], keys[1] == keys[2]


def work_seqs(res, prefix, depth, second=None):
    """every history of the given depth that starts with prefix (second = range of the second request: sharding):
    each response compared with the fresh-process one"""
    import itertools
    c = res['counters']
    for rest in itertools.product(range(NK), repeat=depth - len(prefix)):
        if second is not None and not (second[0] <= rest[0] < second[1]):
            continue
        hist = tuple(prefix) + rest
        core.track(res, {'kind': 'carry-over', 'hist': list(hist)})
        om, app, out = build(hist)
        res['states'] += 1
        res['transitions'] += len(hist)
        for i, k in enumerate(hist):
            if i < len(prefix) - 1:
                continue
            got, exp = out[i], solo(k)
            c['compared_responses'] += 1
            if i:
                res['nontrivial'] += 1
                if any(KINDS[j][0] in ('400', '413', '500', 'badpath', '413json') for j in hist[:i]):
                    c['after_error_history'] += 1
            res['outcomes'].add(f'{KINDS[k][0]} -> {got[0]}')
            if got != exp:
                what = 'status' if got[0] != exp[0] else ('headers' if got[1] != exp[1] else 'body')
                core.add_violation(res, {'kind': 'carry-over', 'hist': list(hist[:i + 1])},
                                   f'after {[KINDS[j][0] for j in hist[:i]]} the request {KINDS[k][0]} is answered {describe(got)}; '
                                   f'served first on a fresh process it is answered {describe(exp)}', sig='carry-over:' + what)
                break
    core.untrack()
    res['execs'] = res['transitions']
    core.add_sample(res, {'histories_starting_with': [KINDS[k][0] for k in prefix], 'depth': depth, 'histories': res['states']})


def work_growth(res, a):
    """for every sequence s = (a) and (a, b): the retained state after s^4 and s^8 has the same size"""
    c = res['counters']
    for seq in [(a,)] + [(a, b) for b in range(NK)]:
        sizes, stable = growth(seq)
        res['states'] += 1
        res['transitions'] += sum((2, 4, 8)) * len(seq)
        c['growth_sequences'] += 1
        res['nontrivial'] += 1
        res['outcomes'].add('retained state stable' if stable else 'retained state CHANGES')
        if not stable:
            core.add_violation(res, {'kind': 'growth', 'seq': list(seq)},
                               f'retained state (application + module state incl. traceback chains) after {[KINDS[k][0] for k in seq]} repeated '
                               f'2/4/8 times differs between 4 and 8 repetitions ({sizes} canonical nodes; traceback chains / containers keep changing)', sig='retained-state-grows')
    res['execs'] = res['transitions']
    core.add_sample(res, {'growth_first_kind': KINDS[a][0], 'sequences': NK + 1, 'repetitions': [2, 4, 8]})


def _work(spec):
    kind = spec[0]
    res = core.new_result()
    c = res['counters']
    if kind == 'seqs':
        work_seqs(res, spec[1], spec[2], spec[3] if len(spec) > 3 else None)
        return res
    if kind == 'growth':
        work_growth(res, spec[1])
        return res
    if kind == 'bfs':
        _, first, depth = spec

        def on_state(hist, obj):
            return True

        def on_transition(hist, op, kb, ka, obj):
            om, app, out = obj
            got = out[-1]
            exp = solo(op)
            c['compared_responses'] += 1
            if hist:
                res['nontrivial'] += 1
                if any(KINDS[k][0] in ('400', '413', '500', 'badpath', '413json') for k in hist):
                    c['after_error_history'] += 1
            res['outcomes'].add(f'{KINDS[op][0]} -> {got[0]}')
            if got != exp:
                what = 'status' if got[0] != exp[0] else ('headers' if got[1] != exp[1] else 'body')
                core.add_violation(res, {'kind': 'carry-over', 'hist': list(hist) + [op]},
                                   f'after {[KINDS[k][0] for k in hist]} the request {KINDS[op][0]} is answered {describe(got)}; '
                                   f'served first on a fresh process it is answered {describe(exp)}', sig='carry-over:' + what)
        s = Search(build, list(range(NK)), state_key)
        s.run(depth, on_state, on_transition, first_ops=[first])
        res['states'] = s.states
        res['transitions'] = s.transitions
        res['execs'] = s.transitions
        c['levels_' + '_'.join(str(x) for x in s.levels)] += 1
        if s.levels and s.levels[-1] > 0 and len(s.levels) >= depth:
            # no fixpoint: the retained state keeps changing with the length of the history
            last = max(s.seen.values(), key=len)
            core.add_violation(res, {'kind': 'unbounded', 'first': first, 'depth': depth, 'example': list(last)},
                               f'histories starting with {KINDS[first][0]}: new retained states per level {s.levels} - no fixpoint '
                               f'within depth {depth} (e.g. after {[KINDS[k][0] for k in last]})', sig='unbounded-retained-state')
        core.add_sample(res, {'first_request': KINDS[first][0], 'depth': depth, 'states': s.states, 'new_states_per_level': s.levels})
        return res
    # k^N liveness
    if kind == 'repeat':
        _, k, n = spec
        seq = [k]
        label = KINDS[k][0]
    else:
        _, (a, b), n = spec
        seq = [a, b]
        label = KINDS[a][0] + '/' + KINDS[b][0]
    live, half, full = liveness(seq, n)
    c['repeat_runs'] += 1
    res['states'] += 1
    res['transitions'] += n * len(seq)
    res['execs'] += n * len(seq)
    res['nontrivial'] += 1
    res['outcomes'].add(f'repeat {label}: live={live}')
    if live > LIVE_LIMIT:
        core.add_violation(res, {'kind': 'liveness', 'seq': seq, 'n': n},
                           f'{n} x {label}: {live} per-request objects (environ dicts / input streams) are still alive after gc.collect()',
                           sig='retention-grows')
    # the last request's own data is part of the retained state (the request object keeps its environ until the next one):
    # its size may differ by a few nodes from request to request; growth with N is what counts
    if full > half + GROWTH_TOLERANCE:
        core.add_violation(res, {'kind': 'liveness', 'seq': seq, 'n': n},
                           f'{n} x {label}: the retained state (application + module state) has {half} canonical nodes after {n // 2} '
                           f'repetitions and {full} after {n}: it grows with the number of requests', sig='retained-state-grows')
    core.add_sample(res, {'repeated': label, 'N': n, 'live_per_request_objects': live, 'retained_nodes_half_full': [half, full]})
    return res


def liveness(seq, n):
    """-> (live per-request objects after n repetitions, retained-state size after n/2 and after n repetitions)"""
    om, app = fresh_app()
    refs = []
    half = None
    for i in range(n):
        if i == n // 2:
            half = size_of(state_key((om, app, None)))
        for k in seq:
            serve(app, k, refs, i=1000 + i)
    gc.collect()
    full = size_of(state_key((om, app, None)))
    return sum(1 for r in refs if r() is not None), half, full


def _replay(case):
    if case['kind'] == 'carry-over':
        hist = case['hist']
        om, app, out = build(hist)
        _solo.clear()
        exp = solo(hist[-1])
        if out[-1] == exp:
            return None
        return (f'one application, one thread, requests {[KINDS[k][0] for k in hist]}: the last one is answered {describe(out[-1])}; '
                f'the same request served first on a fresh process is answered {describe(exp)}')
    if case['kind'] == 'growth':
        sizes, stable = growth(case['seq'])
        if stable:
            return None
        return (f'requests {[KINDS[k][0] for k in case["seq"]]} repeated 2, 4 and 8 times on one application: the retained state '
                f'(application + ombott module state incl. exception traceback chains) after 4 repetitions differs from the one after 8 ({sizes} canonical nodes)')
    if case['kind'] == 'liveness':
        live, half, full = liveness(case['seq'], case['n'])
        if live <= LIVE_LIMIT and full <= half + GROWTH_TOLERANCE:
            return None
        if live <= LIVE_LIMIT:
            return (f'{case["n"]} repetitions of {[KINDS[k][0] for k in case["seq"]]} (path / query changing each time): the retained state has '
                    f'{half} canonical nodes after half of them and {full} at the end - it grows with the number of requests')
        return (f'{case["n"]} repetitions of {[KINDS[k][0] for k in case["seq"]]}: {live} per-request objects (environ dicts, input streams) '
                f'are still alive after gc.collect()')
    first, depth = case['first'], case['depth']
    s = Search(build, list(range(NK)), state_key)
    s.run(depth, lambda h, o: True, None, first_ops=[first])
    if s.levels and s.levels[-1] > 0 and len(s.levels) >= depth:
        return (f'histories starting with {KINDS[first][0]}: the retained state (application + module state incl. traceback lengths) '
                f'keeps producing new states, per level {s.levels}, no fixpoint within depth {depth}')
    return None


def _drop_static_root():
    import shutil
    d = _sroot.pop('d', None)
    if d:
        shutil.rmtree(d, ignore_errors=True)


def work(spec):
    try:
        return _work(spec)
    finally:
        _drop_static_root()


def replay(case):
    try:
        return _replay(case)
    finally:
        _drop_static_root()

MANIFEST['text'] += ' Kinds include header values of equal value and different type, and one URL failing for request-specific reasons with a JSON client.'
MANIFEST['text'] += ' Prepared answer objects carrying cookies, request methods that change at every repetition, and what a request says about its client (auth, proxies, script name, attributes put on the request) are request kinds of their own.'
