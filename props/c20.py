"""C20 — framework error pages never reflect request data unescaped.

Engine: E-ENUM.  Every payload over {<, >, ", ', &, {, }, a, %, !} up to length 3 (thorough 4), plus fixed
format-string probes, is injected into the path, the query string, Host, X-Forwarded-Host and X-Forwarded-Proto of
requests that end in each framework-generated error (404, 405, 400 from a malformed chunked body, 400 from an undecodable path, 500 from a
crashing handler, and the last-resort critical-error page), rendered as HTML and with Accept: application/json,
debug off.
Oracle: HTML - the tag/attribute event sequence produced by html.parser is identical to that of the same error with
the benign payload 'a' (no injected markup), the payload never occurs verbatim when it contains one of < > " ', and
the text shown for the URL decodes (entities) to text containing the payload as sent (nothing swallowed by entity
decoding); JSON - the body parses as JSON and the Content-Type is application/json.
"""
import html
import os
import itertools
import re
import json
from html.parser import HTMLParser
from urllib.parse import quote

from vf import core, sut, wsgi

ID = 'C20'
TITLE = 'Framework error pages never reflect request data unescaped'
ENGINE = ('E-ENUM (payloads x injection positions x error kinds x renderings through Ombott.__call__) + E-SCHED (a JSON and an HTML '
          'client failing at the same time)')
RULE = ('states = distinct (payload, position, error kind, rendering) requests; transitions = WSGI calls; non-trivial = '
        'payloads containing a markup, quote, brace or ampersand character')
ASSUMPTIONS = ['debug off; error bodies raised by application code with its own text are not framework-generated',
               'the structural comparison uses Python html.parser as the reference HTML tokenizer']
MANIFEST = {
    'engines': ['E-ENUM', 'E-SCHED'],
    'technique': 'bounded-exhaustive enumeration of markup/format-string payloads in eight request positions for eight '
                 'framework error kinds and two renderings; oracle = HTML token-sequence equality with a benign baseline + '
                 'no verbatim payload + entity-decoded text contains the payload; JSON validity; stateless exploration of all '
                 'two-thread schedules (preemption-bounded) of a JSON client and an HTML client failing together',
    'text': 'All strings over a 10-symbol markup/quote/brace alphabet up to length 3 (thorough 4) and format-string '
            'probes are injected into path, query string, Host, X-Forwarded-Host and X-Forwarded-Proto of requests ending '
            'in 404, 405, 400, 500 and the last-resort page; PATH_INFO without a leading slash is a position of its own; the raw request target some servers put into REQUEST_URI / RAW_URI and an application with a domain_map are covered; the HTML token stream must equal the benign baseline and the '
            'JSON rendering must be valid JSON, also when a JSON client and an HTML client fail at the same time on two threads (all schedules with <=1, thorough 2, preemptions), and when the error template cannot be opened for the first page of the process (fault injected into the template path: fails once / always).',
    'note': 'Bounds: payload length <=4 over the listed alphabet + probes. Trusted: CPython html.parser / json.',
}

ALPHA = ['<', '>', '"', "'", '&', '{', '}', 'a', '%', '!']
PROBES = ['{e.__class__}', '{0}', '{url!r}', '{e.body.__class__.__mro__}', '{e.traceback}', '{exception}', '{{}}', '{',
          '</tt><script>alert(1)</script>', '"><img src=x onerror=alert(1)>', "'-alert(1)-'", '&lt;script&gt;', '&#60;b&#62;',
          '<!--', '--><b>', '<![CDATA[', '\\', '\\x3cb\\x3e', '%3Cb%3E', '&amp;lt;', 'javascript:alert(1)', '<b' + 'a' * 1200 + '>', '<script>x</script>' + 'a' * 1200, 'a' * 1100 + '<b>"', '<i>' * 300]
POSITIONS = ['path', 'query', 'host', 'xfhost', 'xfproto', 'requri', 'rawuri']     # requri / rawuri: the raw request target as some
#                                                    servers record it in environ['REQUEST_URI'] / environ['RAW_URI']
KINDS = ['404', '405', '400', '500', 'critical', '400path', '500data', 'criticaldm', '500datasetup', '404wild', '404static', '404log', '500log', '500hook']      # 404wild: the path fails BELOW a wildcard that took the payload; 404static: static_file() misses a file     # criticaldm: the last-resort page of an application with a domain_map


# 'rawpath': PATH_INFO is the payload itself, WITHOUT a leading slash (a raw client / a server that does not normalise)
RAW_KINDS = ['404', 'critical', 'criticaldm']


def payloads(n):
    for m in range(1, n + 1):
        for t in itertools.product(ALPHA, repeat=m):
            yield ''.join(t)


def shards(tier, seed):
    n = 3 if tier == 'quick' else 4
    out = []
    for kind in KINDS:
        for pos in POSITIONS + (['rawpath'] if kind in RAW_KINDS else []):
            for first in ALPHA:
                out.append((kind, pos, first, n))
            out.append((kind, pos, None, None))      # the probes
    # fault layer: the error-page template cannot be opened when the first page of the process is rendered
    for kind in ('404', '500', '405'):
        for pos in ('query', 'host', 'xfhost', 'path'):
            out.append(('faulty', kind, pos, None))
    # E-SCHED layer: the rendering (JSON / HTML) is chosen per request, also when two requests fail at the same time
    for kind in ('404', '500', '405'):
        for start in (0, 1):
            out.insert(0, ('threads', kind, start, 1 if tier == 'quick' else 2))
    # seed extension: one more character in the payload alphabet (all payloads <= 2 containing it)
    for pos in POSITIONS:
        out.append(('debugfirst', pos, None, None))
    out.append(('x', ['`', '\t', ';', '=', '/', '\x7f', '#', '?', '$', '\\'][seed % 10], None, 2))
    return out


def bounds(tier, seed):
    return {'alphabet': ALPHA, 'max_len': 3 if tier == 'quick' else 4, 'probes': len(PROBES), 'positions': POSITIONS + ['rawpath (kinds 404 and critical)'],
            'error_kinds': KINDS, 'renderings': ['html', 'json']}


FLOORS = {'fault_pages': 1000, 'schedules': 500, 'html_pages': 5000, 'json_pages': 2000, 'critical_pages': 500, 'markup_payloads': 3000}


class Events(HTMLParser):
    def __init__(self):
        super().__init__(convert_charrefs=True)
        self.ev = []
        self.text = []

    def handle_starttag(self, tag, attrs):
        self.ev.append(('S', tag, tuple(attrs)))

    def handle_startendtag(self, tag, attrs):
        self.ev.append(('SE', tag, tuple(attrs)))

    def handle_endtag(self, tag):
        self.ev.append(('E', tag))

    def handle_comment(self, data):
        self.ev.append(('C',))

    def handle_decl(self, decl):
        self.ev.append(('D', decl))

    def handle_pi(self, data):
        self.ev.append(('PI',))

    def unknown_decl(self, data):
        self.ev.append(('UD',))

    def handle_data(self, data):
        self.text.append(data)


def tokens(body):
    p = Events()
    p.feed(body)
    p.close()
    return p.ev, ''.join(p.text)


class Apps:
    def __init__(self, om, debug_first=False):
        self.om = om
        if debug_first:
            # an application running with debug=True in the same process renders the first error page
            dbg = om.Ombott({'debug': True})
            dbg.route('/boom', 'GET', lambda: 1 / 0)
            wsgi.call(dbg, wsgi.environ('GET', '/boom'))
            wsgi.call(dbg, wsgi.environ('GET', '/missing'))
        app = om.Ombott()

        def only_post(x=None):
            return 'posted'

        def crash(x=None):
            raise ValueError('boom')

        def readbody(x=None):
            return app.request.body.read()

        def crashdata(x=None):
            # a typical handler failure whose message repeats request data
            raise ValueError('invalid literal: %r / %s' % (app.request.query_string, app.request.path))
        app.route('/d/<x:path>', 'GET', crashdata)
        app.route('/m/<x:path>', 'POST', only_post)
        app.route('/c/<x:path>', 'GET', crash)
        app.route('/b/<x:path>', 'POST', readbody)
        self.app = app
        app2 = om.Ombott()

        @app2.error(404)
        def bad404(res):
            raise RuntimeError('error handler failed')
        self.app2 = app2
        # several domains served by one application: a domain_map is configured (it maps no host to a sub-application here)
        app3 = om.Ombott({'domain_map': lambda host: None})

        @app3.error(404)
        def bad404dm(res):
            raise RuntimeError('error handler failed')
        self.app3 = app3
        # an application that ran in debug mode and was then reconfigured through setup() with debug off
        app4 = om.Ombott({'debug': True})
        app4.setup({'debug': False})

        def crashdata4(x=None):
            raise ValueError('invalid literal: %r / %s' % (app4.request.query_string, app4.request.path))
        app4.route('/d/<x:path>', 'GET', crashdata4)
        self.app4 = app4
        app.route('/w/<x>/profile', 'GET', crash)
        # static files are served by the default application (static_file() works on the module-level request)
        # an application whose before_request hook writes an access-log line (it looks at request.url and repr(request) before anything fails)
        app6 = om.Ombott()
        log = []
        def access_log():
            log[:] = [(app6.request.url, repr(app6.request), app6.request.urlparts.path)]
        app6.add_hook('before_request', access_log)
        app6.route('/c/<x:path>', 'GET', crash)
        self.app6 = app6
        # a route hook on a wildcard prefix that fails with an ordinary exception
        def failing_hook(*a, **kw):
            raise RuntimeError('hook failed')
        app.on_route('/u/<name>/', failing_hook)
        app.route('/u/<name>/settings', 'GET', crash)
        app5 = om.default_app()
        app5.route('/static/<name:path>', 'GET', lambda name: om.static_file(name, os.path.dirname(HERE)), overwrite=True)
        self.app5 = app5

    def request(self, kind, pos, payload, as_json):
        base = {'404log': '/nf/', '500log': '/c/', '500hook': '/u/', '404': '/nf/', '405': '/m/', '400': '/b/', '500': '/c/', 'critical': '/nf/', 'criticaldm': '/nf/', '500datasetup': '/d/', '404wild': '/w/', '404static': '/static/', '400path': '/nf/\xe9', '500data': '/d/'}[kind]
        path = base + (payload if pos == 'path' else 'a') + ('/nope' if kind == '404wild' else '/settings' if kind == '500hook' else '')
        if pos == 'rawpath':
            path = payload
        qs = ('q=' + payload) if pos == 'query' else 'q=a'
        headers = {'Host': 'h.test'}
        if pos == 'host':
            headers['Host'] = payload
        elif pos == 'xfhost':
            headers['X-Forwarded-Host'] = payload
        elif pos == 'xfproto':
            headers['X-Forwarded-Proto'] = payload
        if as_json:
            # the ways clients ask for JSON first (a pure function of the case: replays send the same header)
            import zlib
            headers['Accept'] = JSON_ACCEPTS[zlib.crc32(repr((kind, pos, payload)).encode('utf8', 'replace')) % len(JSON_ACCEPTS)]
        else:
            import zlib
            acc = OTHER_ACCEPTS[zlib.crc32(repr((pos, payload, kind)).encode('utf8', 'replace')) % len(OTHER_ACCEPTS)]
            if acc is not None:
                headers['Accept'] = acc
        method = 'POST' if kind == '400' else 'GET'
        kw = {}
        if kind == '400':
            kw = {'body': b'zz\r\n', 'chunked': True}
        env = wsgi.environ(method, path, qs=qs, headers=headers, **kw)
        if pos in ('requri', 'rawuri'):
            env['REQUEST_URI' if pos == 'requri' else 'RAW_URI'] = base + payload + '?q=' + payload
        return wsgi.call({'critical': self.app2, 'criticaldm': self.app3, '500datasetup': self.app4, '404static': self.app5, '404log': self.app6, '500log': self.app6}.get(kind, self.app), env)


OTHER_ACCEPTS = [None, None, 'text/plain', 'text/html,application/xhtml+xml,*/*;q=0.8', '*/*', 'text/plain, */*', 'text/*']      # clients that do not ask for JSON
JSON_ACCEPTS = ['application/json', 'application/json, text/plain, */*', 'application/json;q=0.9, */*;q=0.8', 'application/json; charset=utf-8',
                'application/json, text/javascript, */*; q=0.01', 'application/json; q=0.5', 'application/json;q=1.0, text/html;q=0.9']


def expected_status(kind):
    return {'404log': 404, '500log': 500, '500hook': 500, '404': 404, '405': 405, '400': 400, '500': 500, 'critical': 500, 'criticaldm': 500, '500datasetup': 500, '404wild': 404, '404static': 404, '400path': 400, '500data': 500}[kind]


def shown(pos, payload):
    """how the payload appears in the URL text (before HTML escaping)"""
    return quote(payload) if pos in ('path', 'rawpath') else payload


def judge(apps, kind, pos, payload, as_json, baseline, core_alphabet=True):
    c = apps.request(kind, pos, payload, as_json)
    probs = wsgi.pep3333_problems(c)
    if probs:
        return 'wsgi', probs[0]
    if c.code != expected_status(kind) and not core_alphabet:
        return None     # a seed-extension character changed the routing of the request: not the error kind under test
    if kind == '404static' and c.code == 403:
        pass            # static_file refuses some names (backslashes, dot-dot) with 403: the same framework-generated page
    elif kind == '500hook' and c.code == 404 and pos == 'path' and '/' in payload:
        pass            # a slash in the payload ends the wildcard segment: no route, the 404 page is judged instead
    elif c.code != expected_status(kind):
        return 'status', f'status {c.status}, expected {expected_status(kind)}'
    body = c.body.decode('utf8', 'replace')
    ctype = c.header('Content-Type', '')
    if as_json and not kind.startswith('critical'):
        if not ctype.startswith('application/json'):
            return 'json-ctype', f'JSON requested, Content-Type is {ctype!r}'
        try:
            json.loads(body)
        except ValueError as e:
            return 'json-invalid', f'JSON requested, body is not valid JSON ({e}): {body[:120]!r}'
        return None
    if not ctype.startswith('text/html'):
        return 'html-ctype', f'HTML error page with Content-Type {ctype!r}'
    if re.search(r'<[a-zA-Z/!?]', payload) and payload in body and payload not in baseline[2]:
        return 'verbatim', f'payload {payload[:80]!r} occurs verbatim in the page: …{body[max(0, body.find(payload) - 40):body.find(payload) + len(payload[:80]) + 20]!r}…'
    ev, text = tokens(body)
    if ev != baseline[0]:
        extra = [e for e in ev if e not in baseline[0]][:3]
        return 'markup-injected', f'HTML token sequence differs from the benign page; extra/different tokens {extra!r}'
    if pos in ('requri', 'rawuri'):
        return None     # whether a page shows the server's raw target at all is not specified; only markup is judged
    want = shown(pos, payload) if not kind.startswith('critical') else payload
    if kind.startswith('critical') and pos not in ('path', 'rawpath'):
        return None     # the last-resort page shows the path only
    if kind == '400path':
        return None     # which URL the page of an undecodable path shows is C09's business; only markup is judged here
    t = text
    if not kind.startswith('critical'):
        # the page shows repr(url): undo repr's backslash doubling for the containment test
        t = t.replace('\\\\', '\\')
    if '&' not in payload or not core_alphabet:
        return None     # only an unescaped ampersand can make entity decoding change the text; characters with URL syntax
        #                 (seed extensions: ; ? # / control characters) are re-arranged by urllib and not compared
    strip = str.maketrans('', '', '\t\r\n')       # urllib drops these characters from URLs
    if want.translate(strip) not in t.translate(strip):
        return 'text-altered', f'the page text does not contain the request data {want[:80]!r} as sent (entity decoding changed it?)'
    return None


HERE = os.path.abspath(__file__)


class FaultyPath:
    """stands in for the path of the error-page template: open() fails for the first `fails` calls (EMFILE: the process is out of
    file descriptors; or the data file is missing from a frozen build)"""

    def __init__(self, real, fails):
        self.real, self.left = real, fails

    def open(self, *a, **kw):
        if self.left:
            self.left -= 1
            raise OSError(24, 'Too many open files')
        return self.real.open(*a, **kw)

    def __getattr__(self, k):
        return getattr(self.real, k)


def faulty_request(kind, pos, payload, fails):
    """the FIRST error page of a fresh process, with open() of the template failing `fails` times"""
    om = sut.load(fresh=True)
    er = sut.sub('error_render')
    er.html = FaultyPath(er.html, fails)
    return Apps(om).request(kind, pos, payload, False)


def work_faulty(spec):
    _, kind, pos, _n = spec
    res = core.new_result()
    c = res['counters']
    for fails in (1, 99):
        b = faulty_request(kind, pos, 'a', fails)
        bb = b.body.decode('utf8', 'replace')
        base = tokens(bb)
        for payload in list(payloads(2)) + PROBES[:12]:
            case = {'kind': kind, 'pos': pos, 'payload': payload, 'json': False, 'open_fails': fails}
            core.track(res, case)
            cl = faulty_request(kind, pos, payload, fails)
            res['states'] += 1
            res['transitions'] += 1
            c['fault_pages'] += 1
            if any(ch in payload for ch in '<>"\'&{}'):
                res['nontrivial'] += 1
            v = faulty_verdict(cl, b, base, payload)
            res['outcomes'].add(f'{kind} {pos} template unreadable x{fails} -> {cl.code} {"ok" if v is None else v[0]}')
            if v is not None:
                core.add_violation(res, case, f'{case}: {v[1]}', sig=f'fault:{v[0]}:{kind}')
    core.untrack()
    sut.load(fresh=True)
    res['execs'] = res['transitions']
    core.add_sample(res, {'kind': kind, 'position': pos, 'fault': 'open() of the error template fails (first call / every call)'})
    return res


def faulty_verdict(cl, b, base, payload):
    probs = wsgi.pep3333_problems(cl)
    if probs:
        return 'wsgi', probs[0]
    if cl.code != b.code:
        return 'status', f'status {cl.status}; with a benign payload the same fault gives {b.status}'
    body = cl.body.decode('utf8', 'replace')
    if not (cl.header('Content-Type') or '').startswith('text/html'):
        return None
    if re.search(r'<[a-zA-Z/!?]', payload) and payload in body:
        return 'verbatim', f'payload {payload[:80]!r} occurs verbatim in the page: …{body[max(0, body.find(payload) - 40):body.find(payload) + len(payload[:80]) + 20]!r}…'
    ev, _ = tokens(body)
    if ev != base[0]:
        return 'markup-injected', f'HTML token sequence differs from the benign page under the same fault; extra/different tokens {[e for e in ev if e not in base[0]][:3]!r}'
    return None


def run_threads(om, kind, prefix):
    """two clients fail the same way at the same time on one application: one asks for JSON, one for HTML"""
    from vf.sched import Scheduler
    apps = Apps(om)
    payload = '<b>"x"'
    progs = [lambda: apps.request(kind, 'query', payload, True), lambda: apps.request(kind, 'query', payload, False)]
    sp = os.path.join(os.path.realpath(sut.SRC), 'ombott') + os.sep
    return Scheduler(progs, prefix, lambda fn: fn.startswith(sp) or fn == HERE).run()


def judge_threads(kind, x):
    if x.hung:
        return 'threads:hang', 'a thread did not finish'
    for t, e in x.errors.items():
        return 'threads:error', f'thread {t} raised {type(e).__name__}: {e}'
    j, h = x.results[0], x.results[1]
    for c, what in ((j, 'JSON'), (h, 'HTML')):
        if c.code != expected_status(kind):
            return 'threads:status', f'the {what} client got {c.status}, expected {expected_status(kind)}'
    if not (j.header('Content-Type') or '').startswith('application/json'):
        return 'threads:json-ctype', f'the client that asked for JSON got Content-Type {j.header("Content-Type")!r}: {j.body[:80]!r}'
    try:
        json.loads(j.body.decode('utf8', 'replace'))
    except ValueError as e:
        return 'threads:json-invalid', f'the client that asked for JSON got a body that is not JSON ({e}): {j.body[:80]!r}'
    if not (h.header('Content-Type') or '').startswith('text/html') or '<b>' in h.body.decode('utf8', 'replace'):
        return 'threads:html', f'the client that asked for HTML got {h.header("Content-Type")!r} {h.body[:120]!r}'
    return None


def work_threads(spec):
    from vf.sched import explore
    _, kind, start, bound = spec
    res = core.new_result()
    om = sut.load()
    c = res['counters']
    for prefix, x in explore(lambda p: run_threads(om, kind, p), bound, base=(start,)):
        res['states'] += 1
        res['transitions'] += len(x.points)
        c['schedules'] += 1
        if x.switches:
            res['nontrivial'] += 1
        v = judge_threads(kind, x)
        res['outcomes'].add(f'threads {kind} -> {"ok" if v is None else v[0]}')
        if v is not None:
            core.add_violation(res, {'kind': 'threads', 'error_kind': kind, 'choices': list(x.choices)},
                               f'{kind} for a JSON client and an HTML client on two threads, {x.switches} switches: {v[1]}', sig=v[0])
    res['execs'] = res['states']
    core.add_sample(res, {'threads': ['JSON client', 'HTML client'], 'error_kind': kind, 'first_thread': start, 'preemption_bound': bound, 'schedules': c['schedules']})
    return res


def work(spec):
    if spec[0] == 'threads':
        return work_threads(spec)
    if spec[0] == 'faulty':
        return work_faulty(spec)
    kind, pos, first, n = spec
    res = core.new_result()
    om = sut.load()
    apps = Apps(om)
    c = res['counters']
    if kind == 'debugfirst':
        om = sut.load(fresh=True)
        apps = Apps(om, debug_first=True)
        jobs = [(k, pos, pl) for k in ('500data', '500', '404') for pl in list(payloads(2)) + PROBES[:12]]
    elif kind == 'x':
        extra = pos
        jobs = []
        for k in KINDS:
            for p in POSITIONS + (['rawpath'] if k in RAW_KINDS else []):
                for s in [''] + list(payloads(1)):
                    for q in range(len(s) + 1):
                        jobs.append((k, p, s[:q] + extra + s[q:]))
    elif first is None:
        jobs = [(kind, pos, p) for p in PROBES]
    else:
        jobs = [(kind, pos, first + ''.join(t)) for m in range(0, n) for t in itertools.product(ALPHA, repeat=m)]
    base_cache = {}
    for k, p, payload in jobs:
        for as_json in (False, True):
            if as_json and len(payload) > 2 and not payload.startswith('{'):
                continue
            if p == 'xfproto' and not payload:
                continue
            key = (k, p)
            if key not in base_cache:
                b = apps.request(k, p, 'a', False)
                bb = b.body.decode('utf8', 'replace')
                base_cache[key] = tokens(bb) + (bb,)
            case = {'kind': k, 'pos': p, 'payload': payload, 'json': as_json, 'debug_first': kind == 'debugfirst'}
            core.track(res, case)
            res['states'] += 1
            res['transitions'] += 1
            try:
                v = judge(apps, k, p, payload, as_json, base_cache[key], core_alphabet=(kind != 'x'))
            except Exception as e:   # noqa
                v = ('harness', f'{type(e).__name__}: {e}')
            if as_json and not k.startswith('critical'):
                c['json_pages'] += 1
            else:
                c['html_pages'] += 1
                if k.startswith('critical'):
                    c['critical_pages'] += 1
            if any(ch in payload for ch in '<>"\'&{}'):
                c['markup_payloads'] += 1
                res['nontrivial'] += 1
            res['outcomes'].add(f'{k} {p} {"json" if as_json else "html"} {"ok" if v is None else v[0]}')
            if v is not None:
                core.add_violation(res, case, f'{case}: {v[1]}', sig=f'{v[0]}:{k}')
    core.untrack()
    if kind == 'debugfirst':
        sut.load(fresh=True)
    core.add_sample(res, {'kind': kind, 'position': pos, 'first_symbol': first, 'requests': res['states'],
                          'example_payload': jobs[len(jobs) // 2][2][:60] if jobs else None})
    res['execs'] = res['transitions']
    return res


def replay(case):
    if case.get('open_fails'):
        b = faulty_request(case['kind'], case['pos'], 'a', case['open_fails'])
        cl = faulty_request(case['kind'], case['pos'], case['payload'], case['open_fails'])
        v = faulty_verdict(cl, b, tokens(b.body.decode('utf8', 'replace')), case['payload'])
        sut.load(fresh=True)
        if v is None:
            return None
        return (f'first error page of a fresh process ({case["kind"]}), open() of the error template fails {"once" if case["open_fails"] == 1 else "every time"} '
                f'(OSError 24), payload {case["payload"][:60]!r} in {case["pos"]}: {v[1]}')
    if case.get('kind') == 'threads':
        om = sut.load()
        x = run_threads(om, case['error_kind'], tuple(case['choices']))
        v = judge_threads(case['error_kind'], x)
        if v is None:
            return None
        sw = [(i, ch) for i, ch in enumerate(x.choices) if ch]
        return (f'one application, two threads, both requests end in {case["error_kind"]}: one client sends Accept: application/json, the other does not; '
                f'switches at {sw[:8]}: {v[1]}')
    om = sut.load(fresh=bool(case.get('debug_first')))
    apps = Apps(om, debug_first=bool(case.get('debug_first')))
    k, p = case['kind'], case['pos']
    core_alphabet = all(ch in ALPHA for ch in case['payload']) or case['payload'] in PROBES
    b = apps.request(k, p, 'a', False)
    bb = b.body.decode('utf8', 'replace')
    baseline = tokens(bb) + (bb,)
    v = judge(apps, k, p, case['payload'], case['json'], baseline, core_alphabet)
    if v is None:
        return None
    return (('after an application with debug=True rendered the first error page of the process: ' if case.get('debug_first') else '') +
            f'{k} error page, payload {case["payload"][:100]!r} injected into {p}, '
            f'{"Accept: application/json" if case["json"] else "HTML"}: {v[1]}')

MANIFEST['text'] += ' JSON is asked for in seven Accept spellings; non-JSON clients send seven other Accept values.'
MANIFEST['text'] += ' Error kinds 404log / 500log (a before_request hook reads request.url and repr(request) first) and 500hook (a failing route hook on a wildcard prefix) joined in the tenth wave.'
