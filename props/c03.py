"""C03 — every request gets exactly one well-formed WSGI response.

Engine: E-ENUM over handler programs x request method x application configuration.  Handler programs are generated
from a small grammar (return / raise; str, bytes, empty values, lists, generators and closable iterators of str or
bytes with leading empty items, a raise or a response object as first real item, file-likes with and without close /
__iter__ / wsgi.file_wrapper, HTTPResponse / HTTPError returned, raised, nested, statuses incl. 1xx/204/304),
crossed with GET/HEAD/POST, 404 and 405 outcomes, 0..2 before/after hooks with a failing before-hook, and custom
error handlers (returning text, returning a response, raising).
Oracle: an independent PEP 3333 validator on the recorded call (exactly one start_response, status line, header list,
bytes chunks, Content-Length == bytes returned when a body is allowed, no body for HEAD/1xx/204/304), the expected
status and body from a reference evaluation of the program, the expected hook log (before-hooks in order up to a
failing one, after-hooks all, in reverse order, whatever the outcome), nothing escaping to the server, and close()
called exactly once on a handler iterable that produced output.
"""
import io
import itertools
import os

from vf import core, sut, wsgi

ID = 'C03'
TITLE = 'Every request gets exactly one well-formed WSGI response'
ENGINE = 'E-ENUM (handler programs x methods x hook / error-handler configurations, PEP 3333 validator + reference evaluation)'
RULE = ('states = distinct (program, status set, method, configuration) inputs; transitions = Ombott.__call__ invocations '
        'driven to completion by a strict server loop; non-trivial = programs with an iterable, a response object, a raise, '
        'a body-less status, HEAD, hooks or a custom error handler')
ASSUMPTIONS = ['iterables are homogeneous (all str or all bytes) and raise / yield a response only before their first non-empty item',
               'Content-Length on 1xx/204/304 is not judged; after-request hooks do not fail themselves',
               'the default error page body is not compared (C20 covers it), only its status and framing']
MANIFEST = {
    'engines': ['E-ENUM'],
    'technique': 'bounded-exhaustive enumeration of handler programs (grammar, <=3 items, nesting <=2) x methods x hook and '
                 'error-handler configurations through the real application; oracle = independent PEP 3333 validator + '
                 'reference evaluation of status/body/hook order/close count',
    'text': 'Every program of the grammar is served for GET, HEAD and POST (plus 404 / 405 outcomes, failing before-hooks, '
            'custom error handlers, wsgi.file_wrapper present or absent); each recorded call is validated against PEP 3333 and '
            'the reference evaluation of the program. Short request sequences are served by a server that edits the header lists it is given (as wsgiref does), including last-resort error pages; debug-mode configurations are included.',
    'note': 'Bounds: item lists <=3, nesting <=2, statuses {200,201,204,304,100,404,500}. Trusted: the validator in vf/wsgi.py.',
}

STATUSES = [200, 201, 204, 304, 100, 404, 500]
NOBODY = {100, 101, 204, 304}


# ---- program generation ---------------------------------------------------------------------------------------------

def item_lists(maxlen):
    atoms = [('s', ''), ('s', 'a'), ('b', b''), ('b', b'b'), ('raise',), ('resp', 404), ('resp', 200), ('err', 404), ('err', 500),
             ('rresp', 202), ('rerr', 404)]          # rresp / rerr: the iterable RAISES a response / an HTTP error at that point
    out = [[]]

    def ok(lst):
        kind = None
        for it in lst:
            if kind is None:
                if it[0] in ('raise', 'resp', 'err', 'rresp', 'rerr'):
                    kind = 'end'
                elif it[1]:
                    kind = it[0]
            elif kind == 'end':
                return False          # nothing is enumerated after a raise / response item
            else:
                if it[0] != kind:
                    return False      # homogeneous after the first real item
        # empties before the first real item must not mix str and bytes in a way that matters: allowed
        return True
    for n in range(1, maxlen + 1):
        for t in itertools.product(atoms, repeat=n):
            if ok(t):
                out.append([list(x) for x in t])
    # text items whose UTF-8 encoding is longer than their character count
    out += [[['s', 'é']], [['s', 'a'], ['s', '€ü']], [['s', ''], ['s', 'é'], ['s', 'a']]]
    return out


def values(tier):
    base = [['none'], ['str', ''], ['str', 'a'], ['str', 'é'], ['bytes', b''], ['bytes', b'b'], ['zero'], ['list', []]]
    vs = list(base)
    ils = item_lists(3 if tier == 'quick' else 4)
    for kind in ('list', 'gen', 'citer', 'citer2'):
        for il in ils:
            if il or kind != 'list':
                vs.append([kind, il])
    for content in (b'', b'filedata'):
        for has_close in (True, False):
            for has_iter in (True, False):
                vs.append(['file', has_close, has_iter, content])
        vs.append(['bytesio', content])
    # a seekable stream that the handler has already read from / positioned (only the rest is the body)
    vs.append(['bytesio', b'filedata', 2])
    vs.append(['bytesio', b'filedata', 8])
    return base, vs


def programs(tier):
    base, vs = values(tier)
    progs = []
    for v in vs:
        progs.append(['return', v, None])
    for v in base + [['gen', [['s', ''], ['s', 'a']]], ['citer', [['b', b'b'], ['b', b'b']]], ['file', True, False, b'filedata'],
                     ['gen', [['raise']]], ['list', [['resp', 404]]]]:
        for st in (201, 204, 304, 100):
            progs.append(['return', v, st])
    # response objects returned / raised, nesting <= 2
    inner = base + [['gen', [['s', ''], ['s', 'a']]], ['citer', [['b', b'b']]], ['citer2', [['s', 'a'], ['s', 'a']]], ['gen', [['raise']]], ['gen', [['err', 404]]],
                    ['file', True, False, b'filedata'], ['bytesio', b'filedata'], ['bytesio', b'filedata', 3]]
    for st in STATUSES:
        for v in inner:
            progs.append(['return', ['resp', v, st], None])
            progs.append(['raise', ['resp', v, st]])
        progs.append(['return', ['err', st, 'boom'], None])
        progs.append(['raise', ['err', st, 'boom']])
        for st2 in (200, 304, 404):
            progs.append(['return', ['resp', ['resp', ['str', 'a'], st2], st], None])
            progs.append(['return', ['resp', ['err', st2, 't'], st], None])
            progs.append(['return', ['gen', [['resp', st2]]], st if st in (201, 204) else None])
    progs.append(['raise', ['exc']])
    for fam in ('unicode-decode', 'unicode-encode', 'key', 'os', 'lookup'):
        progs.append(['raise', ['exc', fam]])
        progs.append(['return', ['gen', [['raise', fam]]], None])
    seen = []
    for p in progs:
        if p not in seen:
            seen.append(p)
    return seen


CONFIGS = []
for nb in (0, 1, 2):
    for fail in ([None] + [(i, how) for i in range(nb) for how in ('exc', 'resp')]):
        for na in (0, 1, 2):
            CONFIGS.append({'before': nb, 'fail': fail, 'after': na, 'errh': None})
for errh in ('500str', '404resp', '500raise', 'allraise'):
    CONFIGS.append({'before': 1, 'fail': None, 'after': 1, 'errh': errh})
    CONFIGS.append({'before': 2, 'fail': (1, 'exc'), 'after': 2, 'errh': errh})
for rw in ('path', 'method', 'lazy-route'):
    CONFIGS.append({'before': 1, 'fail': None, 'after': 1, 'errh': None, 'rewrite': rw})
    CONFIGS.append({'before': 2, 'fail': None, 'after': 0, 'errh': None, 'rewrite': rw})
for other in ('created-after', 'created-before'):
    CONFIGS.append({'before': 1, 'fail': None, 'after': 1, 'errh': None, 'other_app': other})
    CONFIGS.append({'before': 0, 'fail': None, 'after': 0, 'errh': None, 'other_app': other})
for sr in ('before0', 'before1', 'after0', 'after1'):
    CONFIGS.append({'before': 2, 'fail': None, 'after': 2, 'errh': None, 'selfremove': sr})
    CONFIGS.append({'before': 2, 'fail': (1, 'exc'), 'after': 2, 'errh': None, 'selfremove': sr})
# debug mode (error pages carry the exception and the traceback): the response must be just as well-formed
for errh in (None, '500str', '500raise', 'allraise'):
    CONFIGS.append({'before': 1, 'fail': None, 'after': 1, 'errh': errh, 'debug': True})
    CONFIGS.append({'before': 2, 'fail': (1, 'exc'), 'after': 1, 'errh': errh, 'debug': True})
BASE_CFG = {'before': 0, 'fail': None, 'after': 0, 'errh': None}
REPR_PROGS = [['return', ['str', 'a'], None], ['return', ['none'], None], ['return', ['gen', [['s', ''], ['s', 'a']]], None],
              ['return', ['citer', [['b', b'b']]], None], ['return', ['citer2', [['s', 'a']]], None], ['return', ['gen', [['raise']]], None], ['raise', ['exc']],
              ['raise', ['resp', ['str', 'a'], 201]], ['raise', ['err', 404, 'boom']], ['return', ['err', 500, 'boom'], None],
              ['return', ['file', True, False, b'filedata'], None], ['return', ['str', 'a'], 204], ['return', ['list', [['err', 404]]], None]]


def shards(tier, seed):
    progs = programs(tier)
    out = []
    n = 24
    for i in range(n):
        out.append(('progs', i, n, tier))
    out.append(('configs', None, None, tier))
    if tier == 'thorough':
        for i in range(48):
            out.append(('allconfigs', i, 48, tier))
    out.append(('outcomes', None, None, tier))
    for first in range(len(SEQ_MENU)):
        out.insert(0, ('sequence', first, None, tier))
    out.append(('static', None, None, tier))
    out.append(('statustext', None, None, tier))
    out.append(('closefail', None, None, tier))
    out.append(('catchall', None, None, tier))
    # seed extension: one more value shape
    out.append(('extra', seed % 4, None, tier))
    return out


def bounds(tier, seed):
    return {'programs': len(programs(tier)), 'methods': ['GET', 'HEAD', 'POST'], 'configs': len(CONFIGS), 'item_list_len': 3 if tier == 'quick' else 4,
            'statuses': STATUSES, 'file_wrapper': ['absent', 'present']}


FLOORS = {'sequence_calls': 150, 'calls': 2500, 'head': 500, 'nobody_status': 200, 'error_pages': 300, 'closable_produced': 100, 'hook_runs': 500,
          'critical_pages': 5, 'distinct_return_types': 3}


# ---- building real values -----------------------------------------------------------------------------------------------

class CIter:
    def __init__(self, om, items, rec):
        self.om, self.items, self.rec = om, list(items), rec
        self.i = 0

    def __iter__(self):
        return self

    def __next__(self):
        if self.i >= len(self.items):
            raise StopIteration
        it = self.items[self.i]
        self.i += 1
        return real_item(self.om, it)

    def close(self):
        self.rec['closes'] += 1


class CIter2:
    """a closable iterable (result-set style) whose __iter__ hands out a separate iterator object"""

    def __init__(self, om, items, rec):
        self.om, self.items, self.rec = om, list(items), rec

    def __iter__(self):
        om = self.om
        return (real_item(om, it) for it in self.items)

    def close(self):
        self.rec['closes'] += 1


class FileLike:
    def __init__(self, content, rec):
        self.b = io.BytesIO(content)
        self.rec = rec

    def read(self, n=-1):
        return self.b.read(n)


class FileClose(FileLike):
    def close(self):
        self.rec['closes'] += 1


class FileIter(FileLike):
    def __iter__(self):
        while True:
            c = self.b.read(3)
            if not c:
                return
            yield c


class FileCloseIter(FileClose, FileIter):
    pass


class CountingBytesIO(io.BytesIO):
    def __init__(self, content, rec):
        super().__init__(content)
        self.rec = rec

    def close(self):
        self.rec['closes'] += 1
        super().close()


class FileWrapper:
    """what a server offers as wsgi.file_wrapper (like wsgiref.util.FileWrapper)"""

    def __init__(self, filelike, blksize=8192):
        self.filelike, self.blksize = filelike, blksize
        if hasattr(filelike, 'close'):
            self.close = filelike.close

    def __iter__(self):
        while True:
            d = self.filelike.read(self.blksize)
            if not d:
                return
            yield d


def fail(family, text):
    """an application failure of one of several exception families (none of them is a client error)"""
    if family == 'unicode-decode':
        b'caf\xe9 \xff'.decode('utf8')
    if family == 'unicode-encode':
        'caf\xe9 \u20ac'.encode('ascii')
    if family == 'key':
        raise KeyError(text)
    if family == 'os':
        raise FileNotFoundError(2, text)
    if family == 'lookup':
        raise LookupError(text)
    raise ValueError(text)


def real_item(om, it):
    if it[0] == 'raise':
        fail(it[1] if len(it) > 1 else None, 'item failed')
    if it[0] == 'resp':
        return om.HTTPResponse('r', it[1])
    if it[0] == 'err':
        return om.HTTPError(it[1], 't')
    if it[0] == 'rresp':
        raise om.HTTPResponse('r', it[1])
    if it[0] == 'rerr':
        raise om.HTTPError(it[1], 't')
    return it[1]


def real_value(om, v, rec):
    k = v[0]
    if k == 'none':
        return None
    if k == 'zero':
        return 0
    if k in ('str', 'bytes'):
        return v[1]
    if k == 'list':
        return [real_item(om, it) for it in v[1]] if not any(it[0] in ('raise', 'rresp', 'rerr') for it in v[1]) else CIterNoClose(om, v[1])
    if k == 'gen':
        def g():
            for it in v[1]:
                yield real_item(om, it)
        return g()
    if k == 'citer':
        return CIter(om, v[1], rec)
    if k == 'citer2':
        return CIter2(om, v[1], rec)
    if k == 'file':
        cls = {(True, True): FileCloseIter, (True, False): FileClose, (False, True): FileIter, (False, False): FileLike}[(v[1], v[2])]
        return cls(v[3], rec)
    if k == 'bytesio':
        b = CountingBytesIO(v[1], rec)
        if len(v) > 2:
            b.seek(v[2])
        return b
    if k == 'resp':
        return om.HTTPResponse(real_value(om, v[1], rec), v[2])
    if k == 'err':
        return om.HTTPError(v[1], v[2])
    raise AssertionError(v)


class CIterNoClose:
    """a plain (close-less) iterator standing in for a list whose element evaluation raises"""

    def __init__(self, om, items):
        self.om, self.items, self.i = om, list(items), 0

    def __iter__(self):
        return self

    def __next__(self):
        if self.i >= len(self.items):
            raise StopIteration
        it = self.items[self.i]
        self.i += 1
        return real_item(self.om, it)


# ---- reference evaluation ---------------------------------------------------------------------------------------------

def errpage(code, cfg):
    h = cfg['errh']
    if h == '500str' and code == 500:
        return (500, b'custom500', None)
    if h == '404resp' and code == 404:
        return (200, b'nf', None)
    if (h == '500raise' and code == 500) or (h == 'allraise' and code in (404, 405, 500)):
        return (500, None, 'critical')
    return (code, None, 'page')


def ev(v, status, cfg):
    """-> (status, body | None (not compared), page kind | None, closable_output)"""
    k = v[0]
    if k in ('none', 'zero'):
        return (status, b'', None, False)
    if k == 'str':
        return (status, v[1].encode('utf8'), None, False)
    if k == 'bytes':
        return (status, v[1], None, False)
    if k == 'resp':
        return ev(v[1], v[2], cfg)
    if k == 'err':
        return errpage(v[1], cfg) + (False,)
    if k in ('file', 'bytesio'):
        content = v[3] if k == 'file' else v[1][(v[2] if len(v) > 2 else 0):]
        return (status, content, None, (k == 'bytesio' or v[1]) and True)
    items = v[1]
    i = 0
    while i < len(items) and items[i][0] in ('s', 'b') and not items[i][1]:
        i += 1
    if i == len(items):
        return (status, b'', None, False)
    first = items[i]
    if first[0] == 'raise':
        return errpage(500, cfg) + (False,)
    if first[0] in ('resp', 'rresp'):
        return (first[1], b'r', None, False)
    if first[0] in ('err', 'rerr'):
        return errpage(first[1], cfg) + (False,)
    body = b''.join((x[1].encode('utf8') if x[0] == 's' else x[1]) for x in items[i:])
    return (status, body, None, k in ('citer', 'citer2'))


def expected(prog, method, cfg, outcome='found'):
    log = []
    failed = None
    for i in range(cfg['before']):
        log.append(f'b{i}')
        if cfg['fail'] and cfg['fail'][0] == i:
            failed = cfg['fail'][1]
            break
    if failed == 'exc':
        res = errpage(500, cfg) + (False,)
    elif failed == 'resp':
        res = (201, b'hooked', None, False)
    elif outcome == '404':
        res = errpage(404, cfg) + (False,)
    elif outcome == '405':
        res = errpage(405, cfg) + (False,)
    else:
        log.append('handler')
        if prog[0] == 'raise':
            e = prog[1]
            if e[0] == 'exc':
                res = errpage(500, cfg) + (False,)
            else:
                res = ev(e, 200, cfg)
        else:
            res = ev(prog[1], prog[2] or 200, cfg)
    for i in reversed(range(cfg['after'])):
        log.append(f'a{i}')
    status, body, page, closable = res
    if method == 'HEAD' or status in NOBODY:
        body = b''
    return status, body, page, closable, log


# ---- driving ---------------------------------------------------------------------------------------------------------------

def other_app(om, log):
    """another application in the same process with hooks of its own (they must never run for our requests)"""
    o = om.Ombott()
    o.add_hook('before_request', lambda: log.append('OTHER-before'))
    o.add_hook('after_request', lambda: log.append('OTHER-after'))
    o.route('/h', 'GET', lambda: 'other')
    return o


def serve(om, prog, method, cfg, outcome='found', file_wrapper=False):
    rec = {'closes': 0, 'log': []}
    log = rec['log']
    if cfg.get('other_app'):
        om = sut.load(fresh=True)       # hook registries are per-process state: start clean
    if cfg.get('other_app') == 'created-before':
        other_app(om, log)
    app = om.Ombott({'debug': True}) if cfg.get('debug') else om.Ombott()
    hooks = {}
    for i in range(cfg['before']):
        def bh(_i=i):
            log.append(f'b{_i}')
            if _i == 0 and cfg.get('rewrite') == 'path' and outcome == 'found':
                app.request.environ['PATH_INFO'] = '/h'                 # hooks run BEFORE routing: the new path is routed
            if _i == 0 and cfg.get('rewrite') == 'method' and outcome == 'found':
                # the method-override recipe: look at the verb, then put another one in place through the item interface
                seen_verb = app.request.method
                app.request['REQUEST_METHOD'] = 'POST' if seen_verb == 'PATCH' else seen_verb
            if _i == 0 and cfg.get('rewrite') == 'lazy-route' and outcome == 'found' and not rec.get('lazy'):
                rec['lazy'] = True
                app.route('/lazy', ['GET', 'POST'], handler)
            if cfg.get('selfremove') == f'before{_i}':
                app.remove_hook('before_request', hooks[f'before{_i}'])     # a one-shot hook
            if cfg['fail'] and cfg['fail'][0] == _i:
                if cfg['fail'][1] == 'exc':
                    fail(['unicode-decode', None, 'key'][(cfg['before'] + cfg['after']) % 3], 'before hook failed')
                raise om.HTTPResponse('hooked', 201)
        hooks[f'before{i}'] = bh
        app.add_hook('before_request', bh)
    for i in range(cfg['after']):
        def ah(_i=i):
            log.append(f'a{_i}')
            if cfg.get('selfremove') == f'after{_i}':
                app.remove_hook('after_request', hooks[f'after{_i}'])
        hooks[f'after{i}'] = ah
        app.add_hook('after_request', ah)
    if cfg['errh'] == '500str':
        app.error(500)(lambda res: 'custom500')
    elif cfg['errh'] == '404resp':
        app.error(404)(lambda res: om.HTTPResponse('nf', 200))
    elif cfg['errh'] == '500raise':
        def bad(res):
            raise RuntimeError('error handler failed')
        app.error(500)(bad)
    elif cfg['errh'] == 'allraise':
        def bad2(res):
            raise RuntimeError('error handler failed')
        for code in (404, 405, 500):
            app.error(code)(bad2)

    def handler():
        log.append('handler')
        if prog[0] == 'raise':
            e = prog[1]
            if e[0] == 'exc':
                fail(e[1] if len(e) > 1 else None, 'handler failed')
            raise real_value(om, e, rec)
        if prog[2]:
            app.response.status = prog[2]
        return real_value(om, prog[1], rec)
    if cfg.get('other_app') == 'created-after':
        o = other_app(om, log)
        wsgi.call(o, wsgi.environ('GET', '/h'))
        del log[:]
    reg_method = 'PUT' if outcome == '405' else [m for m in ('GET', 'POST')]
    app.route('/h', reg_method, handler)
    path = '/missing' if outcome == '404' else '/h'
    if outcome == 'found' and cfg.get('rewrite') == 'path':
        path = '/alias/for/h'
    if outcome == 'found' and cfg.get('rewrite') == 'lazy-route':
        path = '/lazy'
    if outcome == 'found' and cfg.get('rewrite') == 'method' and method == 'POST':
        method = 'PATCH'
    env = wsgi.environ(method, path)
    if file_wrapper:
        env['wsgi.file_wrapper'] = FileWrapper
    c = wsgi.call(app, env)
    return c, rec


def judge(om, prog, method, cfg, outcome, file_wrapper):
    c, rec = serve(om, prog, method, cfg, outcome, file_wrapper)
    status, body, page, closable, log = expected(prog, method, cfg, outcome)
    probs = wsgi.pep3333_problems(c, method)
    if probs:
        return ('pep3333', '; '.join(probs[:2])), c, rec
    if c.errors and page is None and status < 500:
        pass
    if c.code != status:
        return ('status', f'status {c.status}, expected {status}'), c, rec
    if body is not None and c.body != body:
        return ('body', f'body {c.body[:60]!r}, expected {body[:60]!r}'), c, rec
    if page == 'page' and method != 'HEAD' and status not in NOBODY and not c.body:
        return ('empty-error-page', f'{status} error page without a body'), c, rec
    if rec['log'] != log:
        return ('hooks:other-application' if any(x.startswith('OTHER') for x in rec['log']) else 'hooks',
                f'hook/handler log {rec["log"]!r}, expected {log!r}'), c, rec
    if closable and (body or method == 'HEAD' or status in NOBODY):
        produced = True
        if prog[0] == 'return' or prog[0] == 'raise':
            if produced and rec['closes'] != 1:
                v = prog[1]
                # only iterables that actually produced output are judged
                inner = v
                while inner[0] == 'resp':
                    inner = inner[1]
                has_output = (inner[0] in ('file', 'bytesio') and (inner[3] if inner[0] == 'file' else inner[1][(inner[2] if len(inner) > 2 else 0):])) or \
                             (inner[0] in ('citer', 'citer2') and any(it[0] in ('s', 'b') and it[1] for it in inner[1]))
                if has_output:
                    return ('close', f'close() called {rec["closes"]} times on the handler iterable, expected exactly once'), c, rec
    return None, c, rec


def run_case(res, om, prog, method, cfg, outcome='found', fw=False):
    c = res['counters']
    case = {'prog': prog, 'method': method, 'cfg': cfg, 'outcome': outcome, 'fw': fw}
    core.track(res, case)
    res['states'] += 1
    res['transitions'] += 1
    try:
        v, call, rec = judge(om, prog, method, cfg, outcome, fw)
    except Exception as e:   # noqa
        import traceback
        v, call, rec = ('harness', f'{type(e).__name__}: {e} {traceback.format_exc()[-300:]}'), None, None
    c['calls'] += 1
    if method == 'HEAD':
        c['head'] += 1
    if call is not None:
        if call.code in NOBODY:
            c['nobody_status'] += 1
        if call.code is not None and call.code >= 400:
            c['error_pages'] += 1
        if call.exc_info_given:
            c['critical_pages'] += 1
        if rec['closes']:
            c['closable_produced'] += 1
        c['hook_runs'] += sum(1 for x in rec['log'] if x != 'handler')
        res['outcomes'].add(f'{call.ret_type} {call.code} body={bool(call.body)} closed={call.closed}')
        res['counters']['rt:' + str(call.ret_type)] = 1
    if prog[0] == 'raise' or prog[1][0] not in ('str', 'bytes', 'none') or method == 'HEAD' or cfg is not BASE_CFG:
        res['nontrivial'] += 1
    if v is not None:
        core.add_violation(res, case, f'{case}: {v[1]}', sig=v[0])


SEQ_MENU = [('GET', '/ok', None), ('POST', '/body?x=1', b'zz\r\n'), ('POST', '/body?xxxxxxxxxxxxxxxxxxxx=1', b'zz\r\n'),
            ('POST', '/body?big=1', b'5\r\nhello\r\n5\r\nworld\r\n0\r\n\r\n'), ('POST', '/body?looooooooooooooooong=1', b'5\r\nhello\r\n5\r\nworld\r\n0\r\n\r\n'),
            ('GET', '/missing', None), ('GET', '/crash', None), ('HEAD', '/ok', None), ('POST', '/body?fine=1', b'2\r\nhi\r\n0\r\n\r\n'),
            # the error handler itself fails: the last-resort page (its length follows the path)
            ('GET', '/gone/x', None), ('GET', '/gone/xxxxxxxxxxxxxxxx', None)]
SEQ_STATUS = [200, 400, 400, 413, 413, 404, 500, 200, 200, 500, 500]


def seq_app(om):
    app = om.Ombott({'max_body_size': 6})

    def ok():
        return 'fine'

    def body():
        return app.request.body.read()

    def crash():
        raise ValueError('boom')
    app.route('/ok', 'GET', ok)
    app.route('/body', 'POST', body)
    app.route('/crash', 'GET', crash)

    @app.error(404)
    def missing(res):
        if app.request.path.startswith('/gone'):
            raise RuntimeError('error handler failed')
        return app.default_error_handler(res)
    return app


def seq_judge(om, seq):
    om = sut.load(fresh=True)      # module-level state (shared error objects) starts clean for every sequence
    app = seq_app(om)
    for k, i in enumerate(seq):
        method, path, body = SEQ_MENU[i]
        p, _, qs = path.partition('?')
        kw = {'body': body, 'chunked': True} if body is not None else {}
        # the server of the sequence layer edits the header lists it is given (as wsgiref does)
        c = wsgi.call(app, wsgi.environ(method, p, qs=qs, **kw), server_edits_headers=True)
        probs = wsgi.pep3333_problems(c, method)
        if not probs and c.code != SEQ_STATUS[i]:
            probs = [f'status {c.status}, expected {SEQ_STATUS[i]}']
        if probs:
            return f'request #{k + 1} of the sequence ({method} {path}): ' + '; '.join(probs[:2])
    return None


def work_sequence(res, om, depth, first):
    """each response of every short request sequence on ONE application must be well-formed on its own"""
    c = res['counters']
    for rest in itertools.product(range(len(SEQ_MENU)), repeat=depth - 1):
        seq = (first,) + rest
        res['states'] += 1
        res['transitions'] += depth
        c['sequence_calls'] += depth
        res['nontrivial'] += 1
        bad = seq_judge(om, seq)
        res['outcomes'].add('sequence ok' if bad is None else 'sequence BAD')
        if bad:
            core.add_violation(res, {'seq': list(seq)}, f'sequence {[SEQ_MENU[i][:2] for i in seq]}: {bad}', sig='sequence:' + bad.split(': ')[-1][:25])
    core.add_sample(res, {'sequence_menu': [list(m[:2]) for m in SEQ_MENU], 'depth': depth})


STATIC_RANGES = [None, 'bytes=0-3', 'bytes=5-', 'bytes=-3', 'bytes=-0', 'bytes=99999-', 'bytes=5-2', 'bytes=0-0', 'bytes=2-99999', 'bytes=-99999',
                 'bytes=1-2,4-5', 'garbage', 'bytes=', 'lines=1-2']
STATIC_IMS = [None, 'Thu, 01 Jan 1970 00:00:00 GMT', 'Fri, 01 Jan 2100 00:00:00 GMT', 'junk']
STATIC_FILES = [('empty.txt', 0), ('ten.txt', 10), ('big.bin', 3000), ('packed.gz', 40), ('missing.txt', None), ('../outside.txt', None)]


def static_case(om, root, name, method, rng, ims, download, fw):
    app = om.default_app()          # (static_file looks at the request of the default application)
    if not hasattr(app, 'c03_cell'):
        app.c03_cell = cell = {}

        def serve_file():
            return om.static_file(cell['name'], root=cell['root'], download=cell['download'])
        app.route('/c03f', ['GET', 'POST'], serve_file)
    app.c03_cell.update(name=name, root=root, download=download)
    hdrs = {}
    if rng is not None:
        hdrs['HTTP_RANGE'] = rng
    if ims is not None:
        hdrs['HTTP_IF_MODIFIED_SINCE'] = ims
    env = wsgi.environ(method, '/c03f', **hdrs)
    if fw:
        env['wsgi.file_wrapper'] = wsgi.FileWrapper
    c = wsgi.call(app, env)
    return wsgi.pep3333_problems(c, method), c


def work_static(res, om):
    """the framework's own file responder (static_file) behind a route: every Range / If-Modified-Since form x file size x
    method x download mode x file_wrapper presence must give one well-formed response whose Content-Length is the body"""
    import tempfile
    import shutil
    c = res['counters']
    root = tempfile.mkdtemp(prefix='c03static.')
    try:
        for name, size in STATIC_FILES:
            if size is not None:
                with open(os.path.join(root, name), 'wb') as f:
                    f.write(bytes(range(256)) * 12 if size == 3000 else b'0123456789' * (size // 10))
                    f.truncate(size)
        for (name, size), method, rng, ims, download, fw in itertools.product(STATIC_FILES, ('GET', 'HEAD'), STATIC_RANGES, STATIC_IMS,
                                                                                (False, True, 'other.name'), (False, True)):
            case = {'static': [name, method, rng, ims, download, fw]}
            core.track(res, case)
            probs, cl = static_case(om, root, name, method, rng, ims, download, fw)
            res['states'] += 1
            res['transitions'] += 1
            c['static_calls'] += 1
            c['calls'] += 1
            if method == 'HEAD':
                c['head'] += 1
            if cl.code in NOBODY:
                c['nobody_status'] += 1
            res['nontrivial'] += 1
            res['outcomes'].add(f'static_file -> {cl.code}')
            if probs:
                core.add_violation(res, case, f'static_file({name!r}) of {size} bytes, {method}, Range={rng!r}, If-Modified-Since={ims!r}, download={download!r}, '
                                   f'file_wrapper={fw}: status {cl.status}: ' + '; '.join(probs[:2]), sig='static:' + str(cl.code) + ':' + probs[0][:25])
    finally:
        shutil.rmtree(root, ignore_errors=True)
    core.add_sample(res, {'static_file': {'files': STATIC_FILES, 'ranges': STATIC_RANGES, 'if_modified_since': STATIC_IMS}})


STATUS_TEXTS = ['200 OK', '404 Not Found ', ' 203 Custom', '299 My Own Reason', '404 Not Found\r\n', '\t201 Created\t', '204 No Content ', '304 Not Modified\n',
                '500 Oops  ', '  418 I am a teapot  ', '999 Last']
STATUS_WAYS = ['assign', 'return-response', 'raise-response', 'raise-error', 'return-error']


def statustext_case(om, text, way, method):
    app = om.Ombott()

    def h():
        if way == 'assign':
            app.response.status = text
            return 'x'
        if way == 'return-response':
            return om.HTTPResponse('x', status=text)
        if way == 'raise-response':
            raise om.HTTPResponse('x', status=text)
        if way == 'raise-error':
            raise om.HTTPError(text, 'x')
        return om.HTTPError(text, 'x')
    app.route('/s', ['GET', 'POST'], h)
    c = wsgi.call(app, wsgi.environ(method, '/s'))
    probs = wsgi.pep3333_problems(c, method)
    if not probs and c.status != text.strip():
        probs = [f'status line {c.status!r}, the handler set {text!r}']
    return probs, c


# ---- a handler iterable whose close() fails, on answers that carry no body (the iterable is closed BEFORE anything was sent) -------

CLOSEFAIL_ITEMS = [[b'ab'], ['a', 'b'], [b''], []]
CLOSEFAIL_WAYS = ['HEAD', 'status204', 'status304', 'resp204', 'raise304', 'HEAD-resp']


def closefail_case(om, items, way, where):
    """-> (problems, call).  where: 'close' = close() raises; 'finally' = a generator whose finally block raises when it is closed"""
    app = om.Ombott()

    class It:
        def __iter__(self):
            return iter(items)

        def close(self):
            raise RuntimeError('close failed')

    def gen():
        try:
            for it in items:
                yield it
        finally:
            raise RuntimeError('cleanup failed')

    def h():
        body = It() if where == 'close' else gen()
        if way in ('status204', 'status304'):
            app.response.status = int(way[-3:])
            return body
        if way in ('resp204', 'HEAD-resp'):
            return om.HTTPResponse(body, 204 if way == 'resp204' else 200)
        if way == 'raise304':
            raise om.HTTPResponse(body, 304)
        return body
    app.route('/c', 'GET', h)
    method = 'HEAD' if way.startswith('HEAD') else 'GET'
    cl = wsgi.call(app, wsgi.environ(method, '/c'))
    probs = wsgi.pep3333_problems(cl, method)
    if len(cl.sr_calls) != 1:
        probs.append(f'start_response was called {len(cl.sr_calls)} times: {[x[0] for x in cl.sr_calls]}')
    if cl.escaped is not None:
        probs.append(f'escaped: {cl.escaped!r}')
    return probs, cl


def work_closefail(res, om):
    c = res['counters']
    for items, way, where in itertools.product(CLOSEFAIL_ITEMS, CLOSEFAIL_WAYS, ('close', 'finally')):
        case = {'closefail': [items, way, where]}
        core.track(res, case)
        probs, cl = closefail_case(om, items, way, where)
        res['states'] += 1
        res['transitions'] += 1
        c['closefail_calls'] += 1
        c['calls'] += 1
        res['nontrivial'] += 1
        res['outcomes'].add(f'failing close on a body-less answer -> {cl.code} {"ok" if not probs else "BAD"}')
        if probs:
            core.add_violation(res, {'closefail': [[x if isinstance(x, str) else {'b': list(x)} for x in items], way, where]},
                               f'handler iterable {items!r} whose {"close()" if where == "close" else "generator cleanup"} raises, answer without a body ({way}): {probs[0]}',
                               sig='closefail:' + probs[0][:30])
    core.untrack()
    core.add_sample(res, {'closefail_ways': CLOSEFAIL_WAYS, 'items': [repr(i) for i in CLOSEFAIL_ITEMS]})


def work_statustext(res, om):
    """a status given as text ('404 Not Found', possibly cut out of an upstream status line with blanks or a line end around it)
    through every way of setting it: the status line handed to the server is the trimmed text"""
    c = res['counters']
    for text, way, method in itertools.product(STATUS_TEXTS, STATUS_WAYS, ('GET', 'HEAD', 'POST')):
        case = {'statustext': [text, way, method]}
        core.track(res, case)
        probs, cl = statustext_case(om, text, way, method)
        res['states'] += 1
        res['transitions'] += 1
        c['calls'] += 1
        c['status_text_calls'] += 1
        res['nontrivial'] += 1
        res['outcomes'].add(f'status text -> {cl.code}')
        if probs:
            core.add_violation(res, case, f'status {text!r} set by {way}, {method}: ' + '; '.join(probs[:2]), sig='statustext:' + probs[0][:20])
    core.add_sample(res, {'status_texts': STATUS_TEXTS, 'ways': STATUS_WAYS})


CATCHALL_OPS = ['gone', 'gone-head', 'ok', 'crash', 'setup-true', 'setup-false']


def catchall_once(om, start, seq):
    """an application configured with catchall=start serves / is re-configured as `seq` says: a failure of the error machinery itself
    (an error handler that raises) ends in the last-resort 500 page while catchall is on and reaches the server while it is off;
    everything else is answered as usual whatever the setting"""
    app = om.Ombott({'catchall': start})
    app.route('/ok', 'GET', lambda: 'fine')

    def crash():
        raise ValueError('boom')
    app.route('/crash', 'GET', crash)

    @app.error(404)
    def missing(res):
        raise RuntimeError('error handler failed')
    cur = start
    for k, op in enumerate(seq):
        if op.startswith('setup-'):
            cur = op == 'setup-true'
            app.setup({'catchall': cur})
            continue
        method, path = {'gone': ('GET', '/gone/x'), 'gone-head': ('HEAD', '/gone/x'), 'ok': ('GET', '/ok'), 'crash': ('GET', '/crash')}[op]
        c = wsgi.call(app, wsgi.environ(method, path))
        if op.startswith('gone') and not cur:
            if c.escaped is None:
                return f'step {k + 1} ({op}) with catchall off: answered {c.status} instead of letting the failure reach the server'
            continue
        probs = wsgi.pep3333_problems(c, method)
        want = 200 if op == 'ok' else 500
        if not probs and c.code != want:
            probs = [f'status {c.status}, expected {want}']
        if probs:
            return f'step {k + 1} ({op}) with catchall {"on" if cur else "off"} (config.catchall is {app.config.catchall}): ' + '; '.join(probs[:2])
    return None


def work_catchall(res, om, depth):
    c = res['counters']
    for start in (True, False):
        for seq in itertools.product(CATCHALL_OPS, repeat=depth):
            if not any(op.startswith('gone') for op in seq):
                continue
            case = {'catchall': [start, list(seq)]}
            res['states'] += 1
            res['transitions'] += depth
            c['calls'] += depth
            c['catchall_sequences'] += 1
            res['nontrivial'] += 1
            bad = catchall_once(om, start, seq)
            res['outcomes'].add('catchall sequence ' + ('ok' if bad is None else 'BAD'))
            if bad:
                core.add_violation(res, case, f'catchall={start}, {list(seq)}: {bad}', sig='catchall:' + bad.split(': ')[-1][:20])
    core.add_sample(res, {'catchall_ops': CATCHALL_OPS, 'depth': depth})


def work(spec):
    kind, i, n, tier = spec
    res = core.new_result()
    om = sut.load()
    if kind == 'progs':
        progs = programs(tier)
        for j, prog in enumerate(progs):
            if j % n != i:
                continue
            inner = prog[1]
            while isinstance(inner, list) and inner and inner[0] == 'resp':
                inner = inner[1]
            is_file = inner[0] in ('file', 'bytesio')
            for method in ('GET', 'HEAD', 'POST'):
                for fw in ((False, True) if is_file else (False,)):
                    run_case(res, om, prog, method, BASE_CFG, 'found', fw)
            if j % 40 == 0:
                core.add_sample(res, {'program': core.jsonable(prog)})
    elif kind == 'configs':
        for cfg in CONFIGS:
            for prog in REPR_PROGS:
                for method in (('GET', 'HEAD', 'POST') if cfg.get('rewrite') else ('GET', 'HEAD')):      # (the method rewrite acts on POST)
                    run_case(res, om, prog, method, cfg)
    elif kind == 'allconfigs':
        # thorough: every program of the grammar under every hook / error-handler configuration
        progs = programs(tier)
        for j, prog in enumerate(progs):
            if j % n != i:
                continue
            for cfg in CONFIGS:
                if cfg.get('other_app'):
                    continue
                for method in (('GET', 'HEAD', 'POST') if cfg.get('rewrite') else ('GET', 'HEAD')):
                    run_case(res, om, prog, method, cfg)
        core.add_sample(res, {'configs': CONFIGS[:4], 'representative_programs': core.jsonable(REPR_PROGS[:4])})
    elif kind == 'outcomes':
        for cfg in CONFIGS:
            for outcome in ('404', '405'):
                for method in ('GET', 'HEAD', 'POST'):
                    run_case(res, om, REPR_PROGS[0], method, cfg, outcome)
        core.add_sample(res, {'outcomes': ['404', '405'], 'configs': len(CONFIGS)})
    elif kind == 'static':
        work_static(res, om)
    elif kind == 'statustext':
        work_statustext(res, om)
    elif kind == 'closefail':
        work_closefail(res, om)
    elif kind == 'catchall':
        work_catchall(res, om, 4 if tier == 'quick' else 5)
    elif kind == 'sequence':
        work_sequence(res, om, 2 if tier == 'quick' else 3, i)
        om = sut.load(fresh=True)
    else:
        extra_vals = [['str', 'é' * 3000], ['gen', [['s', ''], ['s', ''], ['s', ''], ['s', 'a'], ['s', '']]],
                      ['citer', [['b', b''], ['b', b''], ['resp', 304]]], ['resp', ['resp', ['resp', ['str', 'deep'], 201], 404], 500]][i]
        for method in ('GET', 'HEAD', 'POST'):
            for cfg in CONFIGS[:12]:
                run_case(res, om, ['return', extra_vals, None], method, cfg)
                run_case(res, om, ['raise', ['resp', extra_vals, 201]], method, cfg)
    core.untrack()
    c = res['counters']
    c['distinct_return_types'] = len([k for k in c if k.startswith('rt:')])
    res['execs'] = res['transitions']
    return res


def post(run):
    c = run.res['counters']
    c['distinct_return_types'] = len([k for k in c if k.startswith('rt:')])


def replay(case):
    om = sut.load()
    if 'closefail' in case:
        items, way, where = case['closefail']
        items = [x if isinstance(x, str) else bytes(x['b']) for x in items]
        probs, cl = closefail_case(om, items, way, where)
        if not probs:
            return None
        return (f'a handler iterable {items!r} whose {"close()" if where == "close" else "generator cleanup (finally block)"} raises, on an answer without a body '
                f'({way}): {probs[0]}')
    if 'catchall' in case:
        start, seq = case['catchall']
        bad = catchall_once(om, start, seq)
        if bad is None:
            return None
        return (f'application created with catchall={start}, its 404 handler raises; steps {seq} (setup-true / setup-false = app.setup with that catchall value; '
                f'gone = a request that ends in the failing error handler): {bad}')
    if 'statustext' in case:
        text, way, method = case['statustext']
        probs, cl = statustext_case(om, text, way, method)
        if not probs:
            return None
        return f'handler sets the status {text!r} ({way}), {method}: ' + '; '.join(probs[:2])
    if 'static' in case:
        import tempfile
        import shutil
        name, method, rng, ims, download, fw = case['static']
        root = tempfile.mkdtemp(prefix='c03static.')
        try:
            for nm, size in STATIC_FILES:
                if size is not None:
                    with open(os.path.join(root, nm), 'wb') as f:
                        f.write(bytes(range(256)) * 12 if size == 3000 else b'0123456789' * (size // 10))
                        f.truncate(size)
            probs, cl = static_case(om, root, name, method, rng, ims, download, fw)
        finally:
            shutil.rmtree(root, ignore_errors=True)
        if not probs:
            return None
        return (f'handler returns static_file({name!r}, root, download={download!r}); {method} with Range={rng!r}, If-Modified-Since={ims!r}, '
                f'wsgi.file_wrapper {"present" if fw else "absent"}: status {cl.status}: ' + '; '.join(probs[:2]))
    if 'seq' in case:
        bad = seq_judge(om, case['seq'])
        return None if bad is None else f'requests {[SEQ_MENU[i][:2] for i in case["seq"]]} served one after the other by one application: {bad}'
    cfg = case['cfg']
    if cfg.get('fail') is not None:
        cfg = dict(cfg, fail=tuple(cfg['fail']))
    prog = case['prog']
    v, c, rec = judge(om, prog, case['method'], cfg, case['outcome'], case['fw'])
    if v is None:
        return None
    return (f'handler program {prog!r}, {case["method"]}, outcome {case["outcome"]}, hooks/error handlers {cfg!r}, '
            f'file_wrapper={case["fw"]}: {v[1]}')

MANIFEST['text'] += ' Further layers: static_file behind a route under 14 Range x 4 If-Modified-Since forms, status lines given as text through five ways, and sequences that re-configure catchall with setup() around failing error handlers.'
