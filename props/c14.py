"""C14 — response header values cannot split the response and are wire-safe.

Engine: E-ENUM over setter sequences.  Every value (all strings over {a, CR, LF, NUL, space, ü, €, TAB} up to
length 3, plus ints, floats, bools, None, bytes, lists, objects) is offered through every single-value header
setter (item assignment, append, setdefault, content_type / content_length / expires attributes, response
constructor dict / list / keyword arguments, HTTPError keywords) for every header name and status, singly and in
all two-operation sequences over a reduced value set; observed at headerlist and, for the thread-local Response,
at the list handed to start_response.
Oracle = an independent ordered header-store model: the operation raises iff the type is unsupported or the text
contains CR/LF/NUL, a rejected value never appears, emitted values are Latin-1-encodable native strings that
decode back (UTF-8) to str(original), one entry per value in order, entity headers on the RFC 2616 per-status
blacklist are absent whatever their spelling, and the default Content-Type is added exactly when none was set and
the status allows one.
E-SCHED layer: a handler ending with status 204 / 304 (set, raised or returned) after setting entity headers, and a
plain 200 handler, on two threads of one application, all schedules with <= 1 (thorough 2) preemptions at source
lines: the 204 / 304 never carries a withheld header and the 200 keeps its own.
"""
import itertools
import os
from email.utils import formatdate

from vf import core, sut, wsgi

ID = 'C14'
TITLE = 'Response header values cannot split the response and are wire-safe'
ENGINE = ('E-ENUM (values x setter entry points x names x statuses, single operations and all 2-operation sequences) + '
          'E-SCHED (204/304 and 200 responses on two threads)')
RULE = ('states = distinct (entry-point sequence, names, values, status) programs; transitions = setter calls on real '
        'response objects; non-trivial = programs with a control character, a non-ASCII character, a non-str value, '
        'a blacklisted name or two operations')
ASSUMPTIONS = ['lone surrogates are not "Unicode text"; update(), list arguments to setdefault and direct _headers access '
               'are not single-value setters', 'header names compare case-insensitively for the blacklist and the default Content-Type']
MANIFEST = {
    'engines': ['E-ENUM', 'E-SCHED'],
    'technique': 'bounded-exhaustive enumeration of header-setter programs on the real response classes (and through '
                 'Ombott.__call__ for the thread-local Response) against an independent ordered header-store model; '
                 'stateless exploration of all two-thread schedules (preemption-bounded) for the per-status withheld headers',
    'text': 'All 584 strings over an 8-symbol control/non-ASCII alphabet up to length 3 plus 9 non-string values are '
            'offered through every setter entry point, for 6 names and 4 statuses; all two-operation sequences over a '
            '16-value core. The emitted header list must equal the model and never contain CR/LF/NUL. A 204/304 '
            'response and a 200 response served on two threads of one application under every schedule with <=1 (thorough 2) '
            'preemptions keep the per-status withholding.',
    'note': 'Bounds: value length <=3 (thorough 4), <=2 operations. Trusted: CPython, email.utils.formatdate, the model here.',
}

ALPHA = ['a', '\r', '\n', '\0', ' ', 'ü', '€', '\t']
class Markup(str):
    """text of a str subclass (template engines' safe strings, enum members with str values, numpy strings)"""

    def __repr__(self):
        return 'Markup(%s)' % str.__repr__(self)


NONSTR = [5, 1.5, True, None, b'x', [1], ('t',), {'d': 1}, object, ['a', 'b\r\nc'], ['a', 'ü'], [b'x'],
          Markup('en\r\nSet-Cookie: admin=1'), Markup('a\0b'), Markup('fine ü'), Markup('\n')]
NAMES = ['X-A', 'Content-Type', 'Content-Length', 'Allow', 'Last-Modified', 'content-type']
STATUSES = [200, 204, 304, 404]
BLACKLIST = {204: {'content-type'},
             304: {'allow', 'content-encoding', 'content-language', 'content-length', 'content-range', 'content-type',
                   'content-md5', 'last-modified'}}
DICT_OPS = ['setitem', 'append', 'setdefault']
ATTR_OPS = ['content_type', 'content_length', 'expires']
CTOR_OPS = ['ctor_dict', 'ctor_list', 'ctor_kw', 'error_kw', 'ctor_both', 'ctor_hd', 'ctor_hdu', 'ctor_gen', 'ctor_mp']
# `headers` given as a HeaderDict (filled by its constructor / by update()), a generator of pairs, a read-only mapping: whether such an
# argument is taken at all is not judged (a constructor that refuses it has put nothing on the wire) - but what is taken is checked
LENIENT_CTOR = ('ctor_hd', 'ctor_hdu', 'ctor_gen', 'ctor_mp')      # ctor_both: the name is in `headers` AND given as a keyword


def strings(n):
    for m in range(0, n + 1):
        for t in itertools.product(ALPHA, repeat=m):
            yield ''.join(t)


def value_repr(v):
    return v if isinstance(v, (str, int, float, bool, type(None))) else repr(v)


# ---- model -----------------------------------------------------------------------------------------------------

def acceptable(v):
    if not (v is None or isinstance(v, (str, int, float, bool))):
        return False
    t = str(v)
    return not any(ch in t for ch in '\r\n\0')


class Model:
    def __init__(self):
        self.d = {}      # name -> [values], insertion ordered

    def apply(self, op, name, v):
        """returns True when the operation must be accepted"""
        if op == 'expires':
            if isinstance(v, str):
                pass
            elif isinstance(v, (int, float)):
                v = formatdate(v, usegmt=True)
            else:
                return False
            name = 'Expires'
        elif op == 'content_type':
            name = 'Content-Type'
        elif op == 'content_length':
            name = 'Content-Length'
        if op == 'peek':
            return True
        if op == 'setdefault' and isinstance(v, list):
            # a list offered to setdefault is a multi-value offer: every element is a value of its own
            if not all(acceptable(e) for e in v):
                return False
            self.d.setdefault(name, [str(e) for e in v])
            return True
        if not acceptable(v):
            return False
        t = str(v)
        if op in ('setitem', 'content_type', 'content_length', 'expires'):
            self.d[name] = [t]
        elif op == 'setdefault':
            self.d.setdefault(name, [t])
        else:
            self.d.setdefault(name, []).append(t)
        return True

    def emitted(self, status):
        bl = BLACKLIST.get(status, ())
        out = [(k, v) for k, vs in self.d.items() if k.lower() not in bl for v in vs]
        if status not in BLACKLIST and not any(k.lower() == 'content-type' for k in self.d):
            out.append(('Content-Type', 'text/html; charset=UTF-8'))
        return out


# ---- driving the real objects ----------------------------------------------------------------------------------

def run_program(om, prog, status, via):
    """prog = [(op, name, value)].  Returns (raised_flags, headerlist | None, error)."""
    raised = []
    if via == 'base':
        first = prog[0]
        if first[0] in CTOR_OPS:
            op, name, v = first
            try:
                if op == 'ctor_dict':
                    r = om.HTTPResponse('', status, headers={name: v})
                elif op == 'ctor_list':
                    r = om.HTTPResponse('', status, headers=[(name, v)])
                elif op == 'ctor_kw':
                    r = om.HTTPResponse('', status, **{name: v})
                elif op == 'ctor_both':
                    r = om.HTTPResponse('', status, headers={name: 'base'}, **{name: v})
                elif op == 'ctor_hd':
                    r = om.HTTPResponse('', status, headers=sut.sub('common_helpers').HeaderDict({name: v}))
                elif op == 'ctor_hdu':
                    hd = sut.sub('common_helpers').HeaderDict()
                    hd.update({name: v})
                    r = om.HTTPError(status, '', headers=hd)
                elif op == 'ctor_gen':
                    r = om.HTTPResponse('', status, headers=((k, x) for k, x in [(name, v)]))
                elif op == 'ctor_mp':
                    import types
                    r = om.HTTPResponse('', status, headers=types.MappingProxyType({name: v}))
                else:
                    r = om.HTTPError(status, '', **{name: v})
                raised.append(False)
            except Exception:   # noqa
                raised.append(True)
                return raised, None, None
            rest = prog[1:]
        else:
            r = om.HTTPResponse('', status)
            rest = prog
        for op, name, v in rest:
            raised.append(apply_real(r, op, name, v))
        try:
            hl = list(r.headerlist)
        except Exception as e:   # noqa
            return raised, None, f'headerlist raised {type(e).__name__}: {e}'
        # a copy of the response (what redirect() answers with) emits the same list
        try:
            cp = r.copy(cls=om.HTTPResponse)
        except Exception:   # noqa  (copy() of a response with a multi-valued header raises TypeError: observed, not judged)
            cp = None
        if cp is not None:
            try:
                hl2 = list(cp.headerlist)
            except Exception as e:   # noqa
                return raised, None, f'headerlist of response.copy() raised {type(e).__name__}: {e}'
            if hl2 != hl:
                return raised, None, f'response.copy() emits {hl2!r}, the response itself {hl!r}'
        return raised, hl, None
    # via WSGI on the thread-local Response
    app = om.Ombott()

    def h():
        resp = app.response
        resp.status = status
        for op, name, v in prog:
            raised.append(apply_real(resp, op, name, v))
        return ''
    app.route('/h', 'GET', h)
    c = wsgi.call(app, wsgi.environ('GET', '/h'))
    if c.escaped is not None or c.code != status:
        return raised, None, f'status {c.status} escaped={c.escaped!r}'
    return raised, list(c.headers), None


def apply_real(r, op, name, v):
    try:
        if op == 'setitem':
            r.headers[name] = v
        elif op == 'append':
            r.headers.append(name, v)
        elif op == 'setdefault':
            r.headers.setdefault(name, v)
        elif op == 'peek':
            list(r.headerlist)           # somebody looks at the header list (a log line, a debugger, a middleware) before the response is final
            repr(r)
        elif op == 'content_type':
            r.content_type = v
        elif op == 'content_length':
            r.content_length = v
        elif op == 'expires':
            r.expires = v
        else:
            raise AssertionError(op)
        return False
    except AssertionError:
        raise
    except Exception:   # noqa
        return True


def judge(om, prog, status, via):
    m = Model()
    exp_raise = []
    for op, name, v in prog:
        if op == 'ctor_both':
            m.apply('append', name, 'base')          # the entry of `headers` comes first, the keyword value is a further value
        mop = 'append' if op in CTOR_OPS else op
        exp_raise.append(not m.apply(mop, name, v))
        if exp_raise[-1] and op in CTOR_OPS:
            break
    raised, hl, err = run_program(om, prog, status, via)
    if prog[0][0] in LENIENT_CTOR and raised and raised[0]:
        return None
    if err:
        return 'emit-crash', err
    if raised != exp_raise:
        i = next((i for i, (a, b) in enumerate(zip(raised, exp_raise)) if a != b), min(len(raised), len(exp_raise)))
        op, name, v = prog[min(i, len(prog) - 1)]
        if i < len(exp_raise) and exp_raise[i]:
            return 'accepted-bad', f'{op}({name!r}, {v!r}) was accepted; it must be rejected'
        return 'rejected-good', f'{op}({name!r}, {v!r}) was rejected; it is a legal value'
    if hl is None:
        return None
    # wire safety of everything emitted
    for k, v in hl:
        if type(k) is not str or type(v) is not str:
            return 'non-str', f'emitted {k!r}: {v!r} is not a pair of native strings'
        if any(ch in v for ch in '\r\n\0') or any(ch in k for ch in '\r\n\0'):
            return 'split', f'emitted header {k!r}: {v!r} contains CR/LF/NUL'
        try:
            v.encode('latin1')
        except UnicodeError:
            return 'not-latin1', f'emitted header {k!r}: {v!r} is not Latin-1 encodable'
    exp = m.emitted(status)
    got = [(k, v.encode('latin1').decode('utf8', 'replace')) for k, v in hl]
    if via == 'wsgi':
        # the framework adds Content-Length itself when the handler did not set one
        if not any(k == 'Content-Length' for k in m.d):
            got = [(k, v) for k, v in got if k != 'Content-Length']
    bl = BLACKLIST.get(status, ())
    for k, v in got:
        if k.lower() in bl:
            return 'blacklist', f'entity header {k!r} emitted on a {status} response'
    if sorted(got) != sorted(exp):
        return 'list-differs', f'emitted {got!r}, model says {exp!r}'
    # order of the values of each name
    for name in {k for k, _ in exp}:
        if [v for k, v in got if k == name] != [v for k, v in exp if k == name]:
            return 'order', f'values of {name!r} emitted as {[v for k, v in got if k == name]!r}, expected {[v for k, v in exp if k == name]!r}'
    return None


# ---- two threads on one application (E-SCHED): the withheld entity headers are a per-response matter ------------------

HERE = os.path.abspath(__file__)
ENTITY = {'Content-Type': 'text/plain', 'Content-Length': '3', 'Last-Modified': 'Sun, 13 Sep 2020 12:26:40 GMT',
          'Content-Language': 'en', 'Allow': 'GET'}


def run_threads(om, st, how, prefix):
    """thread 0: a handler that ends with status `st` (204 / 304) after setting entity headers; thread 1: a plain 200"""
    from vf.sched import Scheduler
    app = om.Ombott()

    def bare():
        for k, v in ENTITY.items():
            app.response.headers[k] = v
        if how == 'set':
            app.response.status = st
            return ''
        if how == 'raise':
            raise om.HTTPResponse('', st, **{k.replace('-', '_'): v for k, v in ENTITY.items()})
        return om.HTTPResponse('', st, **{k.replace('-', '_'): v for k, v in ENTITY.items()})

    def plain():
        app.response.headers['X-Plain'] = '1'
        return 'abc'
    app.route('/bare', 'GET', bare)
    app.route('/plain', 'GET', plain)
    progs = [lambda: wsgi.call(app, wsgi.environ('GET', '/bare')), lambda: wsgi.call(app, wsgi.environ('GET', '/plain'))]
    sp = os.path.join(os.path.realpath(sut.SRC), 'ombott') + os.sep
    return Scheduler(progs, prefix, lambda fn: fn.startswith(sp) or fn == HERE).run()


def judge_threads(st, x):
    if x.hung:
        return 'threads:hang', 'a thread did not finish'
    for t, e in x.errors.items():
        return 'threads:error', f'thread {t} raised {type(e).__name__}: {e}'
    a, b = x.results[0], x.results[1]
    if a.code != st or b.code != 200:
        return 'threads:status', f'statuses {a.status!r} / {b.status!r}, expected {st} / 200'
    names = [k.lower() for k, _ in a.headers]
    leaked = sorted(set(names) & BLACKLIST[st])
    if leaked:
        return 'threads:entity-header-emitted', f'the {st} response carries {leaked} (headers {a.headers!r})'
    hb = dict((k.lower(), v) for k, v in b.headers)
    if hb.get('content-length') != '3' or 'content-type' not in hb or hb.get('x-plain') != '1' or b.body != b'abc':
        return 'threads:plain-damaged', f'the 200 response lost its own headers: {b.headers!r} body {b.body!r}'
    return None


# ---- enumeration -------------------------------------------------------------------------------------------------

def shards(tier, seed):
    n = 3 if tier == 'quick' else 4
    out = []
    for op in DICT_OPS + CTOR_OPS:
        for name in (NAMES if op != 'ctor_both' else ['Allow', 'Location', 'Etag']):      # (keyword names are identifiers)
            out.append(('single', op, name, n, 'base'))
    for op in ATTR_OPS:
        out.append(('single', op, None, n, 'base'))
    for op in DICT_OPS:
        out.append(('single', op, 'X-A', n if tier == 'thorough' else 2, 'wsgi'))
        out.append(('single', op, 'content-type', 2, 'wsgi'))
    for op in ATTR_OPS:
        out.append(('single', op, None, 2, 'wsgi'))
    # redirect(): its target becomes the Location header
    out.append(('redirect', None, None, 3 if tier == 'quick' else 4, 'wsgi'))
    for op1 in DICT_OPS + ATTR_OPS:
        for op2 in DICT_OPS + ATTR_OPS:
            out.append(('pair', op1, op2, None, 'base'))
    out.append(('pair', 'ctor_dict', 'append', None, 'base'))
    out.append(('pair', 'ctor_list', 'setitem', None, 'base'))
    out.append(('pair', 'append', 'append', None, 'wsgi'))
    for st in (204, 304):
        for how in ('set', 'raise', 'return'):
            for start in (0, 1):
                out.insert(0, ('threads', st, how, start, 1 if tier == 'quick' else 2))
    out.append(('blacklist', None, None, None, 'base'))
    out.append(('blseq', None, None, None, 'base'))
    # multi-valued headers built up by appends with looks at the header list in between: all programs of <= 4 operations
    for via in ('base', 'wsgi'):
        for first in range(len(MULTI_OPS)):
            out.append(('multi', first, None, 4 if tier == 'quick' else 5, via))
    out.append(('cookies', None, None, 3 if tier == 'quick' else 4, 'wsgi'))
    # seed extension: one more character joins the alphabet (all strings <= 2 containing it, all dict ops)
    out.append(('extra', ['\x0b', '\x0c', '\x85', ' ', '\x7f', '\x1b', '\xff'][seed % 7], None, 2, 'base'))
    return out


def bounds(tier, seed):
    return {'alphabet': [repr(x) for x in ALPHA], 'max_len': 3 if tier == 'quick' else 4, 'non_str_values': [repr(x) for x in NONSTR],
            'names': NAMES, 'statuses': STATUSES, 'entry_points': DICT_OPS + ATTR_OPS + CTOR_OPS, 'max_operations': 2}


FLOORS = {'blacklist_sequences': 100, 'multi_programs': 1000, 'cookie_responses': 1000, 'redirects': 1000, 'schedules': 1000, 'rejected': 1000, 'accepted': 1000, 'blacklisted_withheld': 100, 'non_ascii_roundtrip': 500, 'multi_valued': 100,
          'wsgi_programs': 200}


MULTI_OPS = [('append', 'Vary', 'a'), ('append', 'Vary', 'b'), ('append', 'Vary', 'c'), ('peek', None, None), ('setitem', 'Vary', 'z'),
             ('append', 'Content-Length', '0')]


def work_multi(spec):
    _, first, _, n, via = spec
    res = core.new_result()
    om = sut.load()
    c = res['counters']
    for k in range(1, n + 1):
        for rest in itertools.product(range(len(MULTI_OPS)), repeat=k - 1):
            prog = [MULTI_OPS[first]] + [MULTI_OPS[i] for i in rest]
            res['states'] += 1
            res['transitions'] += len(prog)
            c['multi_programs'] += 1
            if any(o[0] == 'peek' for o in prog[:-1]):
                res['nontrivial'] += 1
            v = judge(om, prog, 200, via)
            res['outcomes'].add('multi ' + ('ok' if v is None else v[0]))
            if v is not None:
                core.add_violation(res, {'prog': [list(o) for o in prog], 'status': 200, 'via': via},
                                   f'{"handler on the application response" if via == "wsgi" else "HTTPResponse object"}: operations {prog!r} (peek = the header list is read): {v[1]}',
                                   sig='multi:' + v[0])
    res['execs'] = res['states']
    core.add_sample(res, {'multi_ops': [list(o) for o in MULTI_OPS], 'first': first, 'max_operations': n, 'via': via})
    return res


# ---- what one 204 / 304 response carried must not decide what the next one may carry (fresh import per pair) -------------------

def blseq_case(st, first, second):
    """fresh import; a status-st response with the header names `first` is emitted, then one with the names `second` -> problem | None"""
    om = sut.load(fresh=True)
    for i, names in enumerate((first, second)):
        r = om.HTTPResponse('', st)
        for nm in names:
            r.headers[nm] = 'v'
        r.headers['X-Keep'] = 'k'
        hl = list(r.headerlist)
        leaked = sorted(k for k, _ in hl if k.lower() in BLACKLIST[st])
        if leaked:
            return f'response #{i + 1} of the process with status {st} and the headers {list(names)} emits {leaked} (header list {hl!r})'
        if ('X-Keep', 'k') not in hl:
            return f'response #{i + 1} with status {st} lost its own header X-Keep (header list {hl!r})'
    return None


def work_blseq(spec):
    res = core.new_result()
    c = res['counters']
    names304 = ['Allow', 'Content-Encoding', 'Content-Language', 'Content-Length', 'Content-Range', 'Content-Type', 'Content-MD5', 'Last-Modified']
    for st, names in ((204, ['Content-Type']), (304, names304)):
        sets = [()] + [(n,) for n in names] + ([tuple(names)] if len(names) > 1 else [])
        for first in sets:
            for second in sets:
                res['states'] += 1
                res['transitions'] += 2
                c['blacklist_sequences'] += 1
                res['nontrivial'] += 1
                bad = blseq_case(st, first, second)
                res['outcomes'].add('blacklist sequence ' + ('ok' if bad is None else 'LEAK'))
                if bad:
                    core.add_violation(res, {'kind': 'blseq', 'status': st, 'first': list(first), 'second': list(second)}, bad, sig='blacklist-after-earlier-response')
    sut.load(fresh=True)
    res['execs'] = res['states']
    core.add_sample(res, {'blacklist_sequences': c['blacklist_sequences']})
    return res


def work_threads(spec):
    from vf.sched import explore
    _, st, how, start, bound = spec
    res = core.new_result()
    om = sut.load()
    c = res['counters']
    for prefix, x in explore(lambda p: run_threads(om, st, how, p), bound, base=(start,)):
        res['states'] += 1
        res['transitions'] += len(x.points)
        c['schedules'] += 1
        if x.switches:
            res['nontrivial'] += 1
        v = judge_threads(st, x)
        res['outcomes'].add(f'threads {st} {how} -> {"ok" if v is None else v[0]}')
        if v is not None:
            core.add_violation(res, {'kind': 'threads', 'status': st, 'how': how, 'choices': list(x.choices)},
                               f'status {st} ({how}) and a plain 200 on two threads, {x.switches} switches: {v[1]}', sig=v[0])
    res['execs'] = res['states']
    core.add_sample(res, {'threads': [f'{st} via {how}', 'plain 200'], 'first_thread': start, 'preemption_bound': bound, 'schedules': c['schedules']})
    return res


COOKIE_ALPHA = ['a', 'ü', '€', '日', ' ', ';', '"', '\\', ',', '\x7f', '\x80', '\xff', '\u0100']
COOKIE_ATTRS = [{}, {'path': '/café'}, {'path': '/日本'}, {'domain': 'bücher.example'}, {'path': '/€', 'httponly': True}]


def cookie_case(om, value, attrs, second):
    """-> (problem or None, emitted Set-Cookie values): the Set-Cookie lines a handler's set_cookie calls put on the wire"""
    app = om.Ombott()

    def h():
        app.response.set_cookie('c', value, **attrs)
        if second is not None:
            app.response.set_cookie('d', second)
        app.response.headers['X-Plain'] = 'ü'
        return 'x'
    app.route('/c', 'GET', h)
    c = wsgi.call(app, wsgi.environ('GET', '/c'))
    if c.escaped is not None or c.code != 200:
        return f'status {c.status} {c.escaped!r}', []
    emitted = [v for k, v in c.headers if k.lower() == 'set-cookie']
    want = 1 + (second is not None)
    if len(emitted) != want:
        return f'{len(emitted)} Set-Cookie lines emitted, {want} cookies were set', emitted
    import http.cookies as hc
    for v, (nm, val) in zip(sorted(emitted), sorted([('c', value)] + ([('d', second)] if second is not None else []))):
        if not isinstance(v, str):
            return f'Set-Cookie value of type {type(v).__name__}', emitted
        try:
            text = v.encode('latin1').decode('utf8')
        except UnicodeError as e:
            return f'Set-Cookie value {v!r} is not Latin-1 text carrying UTF-8 ({type(e).__name__})', emitted
        if any(ch in text for ch in '\r\n\0'):
            return f'Set-Cookie value {v!r} contains a line break or NUL', emitted
        jar = hc.SimpleCookie()
        jar.load(text)
        if nm not in jar or jar[nm].value != val:
            return f'Set-Cookie line {text!r} does not give the cookie {nm}={val!r} back (a client reads {jar[nm].value if nm in jar else None!r})', emitted
    return None, emitted


def work_cookies(spec):
    _, _, _, n, _ = spec
    res = core.new_result()
    om = sut.load()
    c = res['counters']
    import itertools
    values = [''.join(t) for k in range(1, n + 1) for t in itertools.product(COOKIE_ALPHA, repeat=k) if k < 3 or t[0] in 'aü日' ]
    for i, value in enumerate(values):
        for attrs in (COOKIE_ATTRS if len(value) <= 2 else COOKIE_ATTRS[:2]):
            second = [None, 'plain', '日本語'][i % 3]
            case = {'cookie': [value, attrs, second]}
            core.track(res, case)
            res['states'] += 1
            res['transitions'] += 1
            c['cookie_responses'] += 1
            res['nontrivial'] += 1
            bad, emitted = cookie_case(om, value, attrs, second)
            res['outcomes'].add('set_cookie -> ' + ('ok' if bad is None else 'BAD'))
            if bad:
                core.add_violation(res, case, f'set_cookie("c", {value!r}, **{attrs!r}){"" if second is None else f" and set_cookie(d, {second!r})"}: {bad}', sig='cookie:' + bad[:18])
    core.untrack()
    res['execs'] = res['transitions']
    core.add_sample(res, {'cookie_alphabet': [repr(x) for x in COOKIE_ALPHA], 'max_len': n, 'attributes': [repr(a) for a in COOKIE_ATTRS]})
    return res


def work(spec):
    if spec[0] == 'threads':
        return work_threads(spec)
    if spec[0] == 'cookies':
        return work_cookies(spec)
    if spec[0] == 'multi':
        return work_multi(spec)
    if spec[0] == 'blseq':
        return work_blseq(spec)
    kind, a, b, n, via = spec
    res = core.new_result()
    om = sut.load()
    c = res['counters']

    def run(prog, status, fresh=False):
        res['states'] += 1
        res['transitions'] += len(prog)
        case = {'prog': [[op, name, v if (isinstance(v, (str, int, float, bool, type(None))) and type(v) is not Markup) else [i for i, x in enumerate(NONSTR) if x is v][0] + 1000]
                         for op, name, v in prog], 'status': status, 'via': via}
        if fresh:
            case['fresh'] = True       # the program starts from a freshly imported framework (nothing remembered from earlier programs)
        core.track(res, case)
        v = judge(sut.load(fresh=True) if fresh else om, prog, status, via)
        ok = all(acceptable(x[2]) or (x[0] == 'setdefault' and isinstance(x[2], list) and x[2] and all(acceptable(e) for e in x[2])) for x in prog)
        c['accepted' if ok else 'rejected'] += 1
        if via == 'wsgi':
            c['wsgi_programs'] += 1
        if ok and any(isinstance(x[2], str) and any(ord(ch) > 127 for ch in x[2]) for x in prog):
            c['non_ascii_roundtrip'] += 1
        if ok and status in BLACKLIST and any((x[1] or '').lower() in BLACKLIST[status] for x in prog):
            c['blacklisted_withheld'] += 1
        if ok and len(prog) == 2 and prog[0][0] == 'append' and prog[1][0] == 'append' and prog[0][1] == prog[1][1]:
            c['multi_valued'] += 1
        if not ok or len(prog) > 1 or status in BLACKLIST:
            res['nontrivial'] += 1
        res['outcomes'].add(f'{"/".join(x[0] for x in prog)} {status} -> {"ok" if v is None else v[0]}')
        if v is not None:
            core.add_violation(res, case, f'{[(op, nm, value_repr(x)) for op, nm, x in prog]} status={status} via={via}: {v[1]}',
                               sig=v[0])

    if kind == 'single':
        vals = list(strings(n)) + NONSTR
        sts = STATUSES if via == 'base' else [200, 304]
        for v in vals:
            for st in sts:
                run([(a, b, v)], st)
        core.add_sample(res, {'entry_point': a, 'name': b, 'via': via, 'values': len(vals), 'example': [a, b, 'a\r\nü']})
    elif kind == 'pair':
        # ... and values that compare equal although they are written differently (True / 1 / 1.0, False / 0 / 0.0, 5 / 5.0)
        vals = list(strings(1)) + NONSTR[:7] + NONSTR[9:11] + NONSTR[12:15] + [1, 1.0, False, 0, 0.0, 5.0]
        if a == 'content_type':
            # the body's declared charset is the body's business: header values go out as UTF-8 read as Latin-1 whatever it says
            vals = ['text/html; charset=ISO-8859-1', 'text/plain; charset=utf-16', 'text/html; charset=utf-16le', 'text/html; charset=ascii'] + vals[:9]
        names2 = [('X-A', 'X-A'), ('Content-Type', 'content-type'), ('Allow', 'X-A')]
        sts = [200, 304] if via == 'base' else [200]
        for n1, n2 in names2:
            for v1 in vals:
                for v2 in vals:
                    for st in sts:
                        # values that are equal but written differently: on a fresh import, so that whatever is remembered
                        # between the two operations is the program's own doing
                        eqfam = (n1, st) == ('X-A', 200) and all(isinstance(x, (int, float)) for x in (v1, v2))
                        run([(a, n1, v1), (b, n2, v2)], st, fresh=eqfam)
        core.add_sample(res, {'sequence': [a, b], 'via': via, 'values_each': len(vals)})
    elif kind == 'redirect':
        app = om.default_app()
        target = {}

        def go():
            om.redirect(target['v'])
        app.route('/c14-go', 'GET', go, overwrite=True)
        for s in strings(n):
            for prefix in ('', '/next', 'https://other.test/p', 'myapp://open/', 'mailto:a@b.test?subject='):
                for pos in {0, len(prefix)}:
                    v = prefix[:pos] + s + prefix[pos:]
                    target['v'] = v
                    cl = wsgi.call(app, wsgi.environ('GET', '/c14-go', headers={'Host': 'h.test'}))
                    res['states'] += 1
                    res['transitions'] += 1
                    c['redirects'] += 1
                    case = {'kind': 'redirect', 'target': v}
                    bad = None
                    if cl.escaped is not None:
                        bad = f'exception escaped: {cl.escaped!r}'
                    else:
                        for k, hv in cl.headers or []:
                            if type(k) is not str or type(hv) is not str or any(ch in hv for ch in '\r\n\0') or any(ch in k for ch in '\r\n\0'):
                                bad = f'the header list handed to the server has {k!r}: {hv!r}'
                    if any(ch in v for ch in '\r\n\0'):
                        res['nontrivial'] += 1
                    res['outcomes'].add(f'redirect -> {cl.code} {"ok" if bad is None else "BAD"}')
                    if bad:
                        core.add_violation(res, case, f'redirect({v!r}): status {cl.status}; {bad}', sig='redirect-split')
        core.add_sample(res, {'redirect_targets': 'strings over the alphabet inserted before / after same-scheme, foreign-scheme and opaque targets'})
    elif kind == 'blacklist':
        # every spelling of every entity header that 204 / 304 must withhold, through every dictionary setter
        for st in (200, 204, 304):
            for canon_name in sorted(BLACKLIST[304]):
                title = '-'.join(w.capitalize() for w in canon_name.split('-'))
                for name in sorted({canon_name, canon_name.upper(), title, title.replace('Md5', 'MD5')}):
                    for op in DICT_OPS:
                        run([(op, name, 'v')], st)
                        run([(op, name, 'v'), ('append', name, 'w')], st)
        core.add_sample(res, {'blacklisted_names': sorted(BLACKLIST[304])})
    else:
        extra = a
        for s in strings(2):
            for pos in range(len(s) + 1):
                v = s[:pos] + extra + s[pos:]
                for op in DICT_OPS:
                    run([(op, 'X-A', v)], 200)
        core.add_sample(res, {'extra_symbol': repr(extra)})
    core.untrack()
    res['execs'] = res['states']
    return res


def replay(case):
    if case.get('kind') == 'blseq':
        bad = blseq_case(case['status'], tuple(case['first']), tuple(case['second']))
        sut.load(fresh=True)
        return bad
    if 'cookie' in case:
        value, attrs, second = case['cookie']
        bad, emitted = cookie_case(sut.load(), value, attrs, second)
        if bad is None:
            return None
        return (f'handler calls response.set_cookie("c", {value!r}, **{attrs!r})' + ('' if second is None else f' and set_cookie("d", {second!r})') +
                f'; header list handed to the server has Set-Cookie {emitted!r}: {bad}')
    om = sut.load(fresh=bool(case.get('fresh')))
    if case.get('kind') == 'redirect':
        app = om.default_app()

        def go():
            om.redirect(case['target'])
        app.route('/c14-go', 'GET', go, overwrite=True)
        cl = wsgi.call(app, wsgi.environ('GET', '/c14-go', headers={'Host': 'h.test'}))
        for k, hv in cl.headers or []:
            if type(hv) is not str or any(ch in hv for ch in '\r\n\0'):
                return f'a handler calls redirect({case["target"]!r}): status {cl.status}, the header list handed to the server has {k!r}: {hv!r}'
        return None
    if case.get('kind') == 'threads':
        x = run_threads(om, case['status'], case['how'], tuple(case['choices']))
        v = judge_threads(case['status'], x)
        if v is None:
            return None
        sw = [(i, ch) for i, ch in enumerate(x.choices) if ch]
        return (f'one application, two threads: a handler ending with status {case["status"]} ({case["how"]}) after setting entity headers, and a plain 200; '
                f'switches at {sw[:8]}: {v[1]}')
    prog = [(op, name, (NONSTR[v - 1000] if isinstance(v, int) and not isinstance(v, bool) and v >= 1000 else v))
            for op, name, v in case['prog']]
    v = judge(om, prog, case['status'], case['via'])
    if v is None:
        return None
    return (f'setter program {[(op, nm, value_repr(x)) for op, nm, x in prog]} on a status-{case["status"]} response '
            f'(observed via {"start_response" if case["via"] == "wsgi" else "headerlist"}): {v[1]}')

MANIFEST['text'] += ' str-subclass values and the Set-Cookie lines of set_cookie (values and attributes above U+00FF; read back by a client-side parser) are covered.'
MANIFEST['text'] += ' Multi-valued headers are built by all programs of <= 4 append / setitem / look-at-the-header-list operations; `headers` may be a HeaderDict, a generator or a read-only mapping.'
