"""C19 — building a URL from matched parameters leads back to the same match.

Engine: E-ENUM.  For every rule of an extended rule universe (the C01 ASTs plus 3- and 4-atom rules with adjacent
wildcards, anonymous wildcards passed positionally, int / float / re / path filters with and without a following
literal) and every generated path that the rule matches (reference matcher), the matched values are passed to the
real Route.url(*anonymous, **named); the built URL is resolved on a router holding only that rule.
Oracle: the URL resolves to the same rule with the same parameter values (types included; anonymous values compared
through the reference matcher), and the rule's literal parts occur verbatim and in order in the URL.
"""
import itertools

from vf import core, sut
from vf import refrouter as rr
from vf.refrouter import L, W
from props import c01

ID = 'C19'
TITLE = 'Building a URL from matched parameters leads back to the same match'
ENGINE = 'E-ENUM (rules x matched parameter assignments; Route.url fed back into resolve)'
RULE = ('states = distinct (rule, flavour) routes; transitions = url() round trips, one per (rule, matching path); '
        'non-trivial = round trips involving a filter conversion, an anonymous wildcard, adjacent wildcards or a path filter')
ASSUMPTIONS = ['parameter assignments are exactly those produced by matching a generated path with the reference matcher',
               'numeric values are compared after conversion (007 and 7 are the same int)']
MANIFEST = {
    'engines': ['E-ENUM'],
    'technique': 'bounded-exhaustive enumeration of rules x matching paths: match (reference) -> Route.url -> resolve (real '
                 'router) must return the same values; literal parts verbatim and in order',
    'text': 'Every rule of the extended universe in every syntax flavour, with every parameter assignment obtained by '
            'matching the generated paths (adversarial wildcard values incl. numeric edge texts), is round-tripped through '
            'the real Route.url and RadiRouter.resolve. Rule pairs in one router, rules carrying a hook with other wildcard names, and one Route object building the URLs of all its matches in both orders are layers of their own.',
    'note': 'Bounds: rules of <=4 atoms from the stated universe; values from the generators. Trusted: reference matcher.',
}

NUM_VALUES = ['007', '-0', '1.50', '-0.0', '12345678901234567890', '1234567890.0123456789', '0.00001', '100000000000000000000.5',
              '0.1', '-12.75', '3', '1e5', '-1', '-2', '-1.0', '-2.0']


def universe():
    u = [r for r in c01.universe()]
    u += [
        (L('a/'), W('x', 'int'), W('y', 're', '[a-z]+'), L('/b')),
        (L('a/'), W('x', 'int'), W('y', 're', '[a-z]+')),
        (W('x', 're', 'a+'), W(None, 're', r'\d'), L('b')),
        (L('a/'), W(None, 're', 'a+'), L('/'), W(None, 'int')),
        (L('a/'), W(None, 're', 'a+'), L('/'), W('y', 'float'), L('/c')),
        (L('a/'), W('x'), L('-'), W('y')),
        (L('a-'), W('x'), L('-b/'), W('y', 'int')),
        (W('x', 'float'), L('/'), W('y', 'float')),
        (L('img/'), W('w', 'int'), W('u', 're', 'px|em'), L('/thumb')),
        (L('a/'), W('p', 'path'), L('/end/'), W('x')),
        (L('a/'), W('p', 'path')),
        (W('p', 'path'), L('.txt')),
        (L('v'), W('x', 'int'), L('.'), W('y', 'int')),
        (L('a/'), W('x', 're', 'a+'), W('y', 're', 'b+'), W('z', 're', 'c+')),
        (L('a/'), W('x', 're', 'a+'), W('y', 're', 'b+'), W('z', 're', 'c+'), L('d')),
        # a literal that starts with digits directly after a wildcard
        (L('img/'), W('n', 're', '[a-z]+'), L('2x.png')), (L('b/'), W('s', 're', '[a-z-]+'), L('2024/i')), (L('dl/'), W('p', 'path'), L('0.tgz')),
        (L('v/'), W('x'), L('/1')), (W('x', 'int'), L('0')),
        # hand-written re filters whose text equals the mask of a built-in filter
        (L('a/'), W('x', 're', r'-?\d+')), (L('a/'), W('x', 're', r'-?\d+(\.\d+)?')),
        # literals containing a percent sign (a discount, a percent-encoded word, a doubled sign)
        (L('sale/50%/'), W('code')), (L('q/'), W('n', 'int'), L('%/off')), (L('caf%C3%A9/'), W('t', 'int')),
        (L('p/100%%/'), W('x'), L('/'), W('y', 'path')), (L('%s/'), W('x'), L('/%d/'), W(None, 'int')),
    ]
    return u


def values_for(rule):
    vals = list(rr.WILD_VALUES) + ['x/y/z', 'aab', 'abc', 'aabbcc', 'aaabcd', '640px', '12em', 'f.txt', 'd/f.txt.txt', 'endend', 'a/end/b',
                                   'logo', 'a-b', 'f0.tgz', 'x/y0.tgz', '70', '1']
    if any(a[0] == 'W' and a[2] in ('int', 'float') for a in rule):
        vals += NUM_VALUES
    return vals


THOROUGH = [False]


def paths_for(rule):
    ps = set(rr.instantiate(rule, values_for(rule)))
    if THOROUGH[0]:
        # thorough: also every path generated for any other rule of the universe, and their perturbations
        for other in universe():
            inst = rr.instantiate(other, values_for(other))
            ps.update(inst)
            for q in inst[:3]:
                ps.update(rr.perturb(q))
    nw = sum(1 for a in rule if a[0] == 'W')
    if nw >= 2:
        vs = ['a', '1', 'aa', '1.5', 'bb', 'cc', '640', 'px', 'x/y', '007', '2']
        for combo in itertools.product(vs, repeat=min(nw, 3)):
            it = iter(combo + combo)
            ps.add(''.join(a[1] if a[0] == 'L' else next(it) for a in rule))
    return sorted(ps)


SAME_MASK = [((L('i/'), W('n', 'int')), (L('r/'), W('n', 're', r'-?\d+'))),
             ((L('f/'), W('n', 'float')), (L('r/'), W('n', 're', r'-?\d+(\.\d+)?'))),
             ((L('i/'), W('n', 'int')), (L('f/'), W('n', 'float'))),
             ((L('p/'), W('p', 'path')), (L('r/'), W('p', 're', '.+$')))]


# two rules in one router: one enters a literal branch where the other has a wildcard, so that matching has to back out of
# the literal branch after values were bound there
PAIRS = [
    ((L('files/'), W('name'), L('/raw')), (W('section'), L('/'), W('item', 'int'), L('/view'))),
    ((L('files/'), W('name'), L('/raw')), (W('section'), L('/'), W('item'), L('/view'))),
    ((L('a/'), W('x'), L('/b/'), W('y'), L('/c')), (W('p'), L('/'), W('q'), L('/b/'), W('r'), L('/d'))),
    ((L('a/b/'), W('x', 'int')), (L('a/'), W('y'), L('/'), W('z', 're', '[a-z]+'))),
    ((L('u/me')), (L('u/'), W('id'))),
    ((L('f/'), W('p', 'path')), (L('f/x/'), W('b', 'int'), L('/end'))),
    ((L('v/'), W('n', 'int'), L('/'), W('t')), (L('v/'), W('n', 'int'), L('-'), W('k'), L('/'), W('t'))),
    ((W('a0'), L('/'), W('b')), (L('s/'), W('b'), L('/t'))),
    # two rules that leave the same wildcards with literals sharing a beginning (the node of the older rule is split by the newer one)
    ((L('u/'), W('id', 'int'), L('/profile')), (L('u/'), W('id', 'int'), L('/prefs'))),
    ((L('shop/'), W('cat'), L('/item-'), W('no', 'int'), L('/details')), (L('shop/'), W('cat'), L('/item-'), W('no', 'int'), L('/delivery'))),
    ((L('u/'), W('id'), L('/pro')), (L('u/'), W('id'), L('/profile'))),
]
PAIRS = [tuple(r if isinstance(r, tuple) and r and isinstance(r[0], tuple) else (r,) for r in p) for p in PAIRS]
PAIR_SEGS = ['files', 'raw', 'view', '7', 'x', 'a', 'b', 'c', 'd', 'me', 'u', 'f', 'end', 'v', '3-k', 's', 't', '12', 'profile', 'prefs', 'pro', 'shop', 'item-5', 'details', 'delivery']


def pair_paths(pair, tier):
    segs = [s for s in PAIR_SEGS if any(s in rr.pattern(r).replace('\r', '/').split('/') for r in pair)] + ['7', 'x', 'ab', '3-k']
    segs = sorted(set(segs))
    n = max(rr.pattern(r).count('/') + 1 for r in pair)
    out = set()
    for m in range(1, n + 1):
        for combo in itertools.product(segs, repeat=m):
            out.add('/'.join(combo))
    for r in pair:
        out.update(rr.instantiate(r, values_for(r))[:40])
    return sorted(out)


def renamed(rule, how):
    """the same pattern written with other wildcard names ('other') or anonymous wildcards ('anon')"""
    return tuple(a if a[0] == 'L' else W(None if (how == 'anon' and a[2] is not None) else (a[1] or 'w') + 'q%d' % i, *a[2:])
                 for i, a in enumerate(rule))


def shards(tier, seed):
    u = universe()
    out = [('rule', i, tier) for i in range(len(u))]
    out += [('pair', i, tier) for i in range(len(PAIRS))]
    out += [('hooked', i, tier) for i in range(0, len(u), 8)]
    out += [('order', i, tier) for i in range(len(SAME_MASK))]
    out += [('decctx', 0, tier), ('decctx', 1, tier)]
    out += [('refused', i, tier) for i, r in enumerate(u) if any(a[0] == 'W' and a[1] is None for a in r) or i % 6 == 0]
    out.append(('extra', seed % 4, tier))
    return out


def bounds(tier, seed):
    u = universe()
    return {'rules': [rr.default_text(r) for r in u], 'flavours': 'all', 'numeric_texts': NUM_VALUES}


FLOORS = {'under_decimal_context': 4, 'after_refused_parse': 500, 'shared_route_roundtrips': 2000, 'pair_roundtrips': 300, 'pair_backtracks': 20, 'hooked_roundtrips': 1000, 'roundtrips': 3000, 'with_conversion': 300, 'with_anonymous': 100, 'adjacent_wildcards': 100, 'path_filter': 100}


def roundtrip(rmod, rule, text, path, hook=None):
    """None or (class, description).  hook = (rule text of a route hook on the same pattern, 'before' | 'after')"""
    vals = rr.match(rule, path.strip('/'))
    if vals is None:
        return 'nomatch', None
    named = {k: v for k, v in vals if k is not None}
    anon = [v for k, v in vals if k is None]
    router = rmod.RadiRouter()

    def h(**kw):
        return kw
    try:
        if hook and hook[1] == 'before':
            router.add_hook(hook[0], lambda *a, **kw: None)
        if hook and hook[1].startswith('refused-'):
            # a malformed rule text is refused first (by add / remove / add_hook / a lookup by rule): that must leave nothing behind
            try:
                {'refused-add': lambda: router.add(hook[0], 'GET', h), 'refused-remove': lambda: router.remove(hook[0]),
                 'refused-hook': lambda: router.add_hook(hook[0], lambda *a, **kw: None), 'refused-lookup': lambda: router[{hook[0]}]}[hook[1]]()
                return 'malformed-accepted', f'malformed rule text {hook[0]!r} was accepted by {hook[1][8:]}'
            except Exception:   # noqa
                pass
        route = router.add(text, 'GET', h)
        if hook and hook[1] in ('after', 'after-then-removed'):
            router.add_hook(hook[0], lambda *a, **kw: None)
        if hook and hook[1] == 'after-then-removed':
            router.remove_hook(hook[0])          # the hook goes again: the route is as it was
        if hook and hook[1] == 'overwrite':
            # the same pattern registered again for another verb, written with other wildcard names, with overwrite=True:
            # the route that matched GET still builds and matches with the names of ITS rule
            router.add(hook[0], 'PUT', lambda **kw: kw, overwrite=True)
    except Exception as e:   # noqa
        return 'rule-rejected', f'rule text {text!r} rejected: {type(e).__name__}: {e}'
    try:
        url = route.url(*anon, **named)
    except Exception as e:   # noqa
        return 'url-raised:' + type(e).__name__, f'url(*{anon!r}, **{named!r}) raised {type(e).__name__}: {e}'
    if not isinstance(url, str):
        return 'url-type', f'url() returned {url!r}'
    pos = 0
    for a in rule:
        if a[0] == 'L':
            j = url.find(a[1], pos)
            if j < 0:
                return 'literal-lost', f'url {url!r} does not contain the literal {a[1]!r} (after position {pos})'
            pos = j + len(a[1])
    try:
        end_point, err = router.resolve(url, ['GET'])
    except Exception as e:   # noqa
        return 'resolve-raised', f'resolve({url!r}) raised {type(e).__name__}: {e}'
    if end_point is None:
        return 'no-way-back', f'url {url!r} built from {vals!r} does not match the rule again'
    got = end_point[1]
    if got != named or any(type(got[k]) is not type(named[k]) for k in named):
        return 'other-values', f'url {url!r} built from {named!r} matches with {got!r}'
    back = rr.match(rule, url.strip('/'))
    if back is None or [v for _, v in back] != [v for _, v in vals]:
        return 'other-values', f'url {url!r} built from {vals!r} matches with {back!r} (all wildcards)'
    return None


def check_pair(res, rmod, pair, tier):
    """Both rules in one router: whatever a path resolves to (real router), url() of the resolved route with the resolved
    parameters must resolve to the same route with the same parameters; the resolution itself must agree with the
    reference (rule selected, values)."""
    c = res['counters']
    texts = [rr.default_text(r) for r in pair]
    for order in ((0, 1), (1, 0)):
        router = rmod.RadiRouter()
        routes = {}
        for i in order:
            try:
                routes[i] = router.add(texts[i], 'GET', (lambda i: lambda **kw: i)(i))
            except Exception as e:   # noqa  (the pairs are chosen to be compatible: a rejection is a harness error)
                raise RuntimeError(f'rule pair {texts} rejected: {type(e).__name__}: {e}') from None
        res['states'] += 1
        for p in pair_paths(pair, tier):
            ref = rr.resolve(list(pair), p)
            try:
                ep, err = router.resolve('/' + p, ['GET'])
            except Exception as e:   # noqa
                core.add_violation(res, {'kind': 'pair', 'pair': [[list(a) for a in r] for r in pair], 'order': list(order), 'path': p},
                                   f'rules {texts} : resolve({p!r}) raised {type(e).__name__}: {e}', sig='pair:resolve-raised')
                continue
            res['transitions'] += 1
            if ref is None and ep is None:
                continue
            bad = None
            if (ref is None) != (ep is None):
                bad = f'resolves to {"nothing" if ep is None else ep[0].route.rule!r}, reference: {"nothing" if ref is None else texts[ref[0]]!r}'
            else:
                idx, params, allv = ref
                c['pair_roundtrips'] += 1
                res['nontrivial'] += 1
                other = pair[1 - idx]
                # did the path run into the other rule first (shares its first segment's literal)?
                if rr.match(other, p) is None and rr.pattern(other).split('/')[0] == p.split('/')[0]:
                    c['pair_backtracks'] += 1
                route = ep[0].route
                if route is not routes[idx]:
                    bad = f'resolves to {route.rule!r}, reference selects {texts[idx]!r}'
                elif ep[1] != params or any(type(ep[1][k]) is not type(params[k]) for k in params):
                    bad = f'resolves to {route.rule!r} with {ep[1]!r}, reference values {params!r}'
                else:
                    named = dict(ep[1])
                    anon = [v for (k, v) in rr.match(pair[idx], p) if k is None]
                    try:
                        url = route.url(*anon, **named)
                        ep2, err2 = router.resolve(url, ['GET'])
                        if ep2 is None or ep2[0].route is not route or ep2[1] != named:
                            bad = (f'matched {route.rule!r} with {named!r}; url() gives {url!r}, which resolves to '
                                   f'{None if ep2 is None else (ep2[0].route.rule, ep2[1])!r}')
                    except Exception as e:   # noqa
                        bad = f'matched {route.rule!r} with {named!r}; url() / resolve raised {type(e).__name__}: {e}'
            res['outcomes'].add('pair ' + ('ok' if bad is None else 'DIFF'))
            if bad:
                core.add_violation(res, {'kind': 'pair', 'pair': [[list(a) for a in r] for r in pair], 'order': list(order), 'path': p},
                                   f'rules {[texts[i] for i in order]} in one router, path {p!r}: {bad}', sig='pair:' + bad.split(' ')[0])


def check_shared(res, rmod, rule):
    """ONE Route object builds the URLs of all its matches, one after the other (as templates do), in both orders"""
    c = res['counters']
    if not any(a[0] == 'W' for a in rule):
        return
    text = rr.default_text(rule)
    matched = [(p, rr.match(rule, p.strip('/'))) for p in paths_for(rule)]
    matched = [(p, v) for p, v in matched if v is not None]
    for order in ('forward', 'backward'):
        router = rmod.RadiRouter()
        try:
            route = router.add(text, 'GET', lambda **kw: kw)
        except Exception:   # noqa  (judged by the single-path layer)
            return
        res['states'] += 1
        seq = matched if order == 'forward' else matched[::-1]
        for i, (p, vals) in enumerate(seq):
            named = {k: v for k, v in vals if k is not None}
            anon = [v for k, v in vals if k is None]
            res['transitions'] += 1
            c['shared_route_roundtrips'] += 1
            res['nontrivial'] += 1
            try:
                url = route.url(*anon, **named)
                ep, err = router.resolve(url, ['GET'])
                back = rr.match(rule, url.strip('/')) if isinstance(url, str) else None
                bad = None
                if ep is None or ep[1] != named or back is None or [v for _, v in back] != [v for _, v in vals]:
                    bad = f'url {url!r} built from {vals!r} matches with {None if back is None else back!r}'
            except Exception as e:   # noqa
                bad = f'url() / resolve raised {type(e).__name__}: {e}'
            if bad:
                alone = roundtrip(rmod, rule, text, p)
                if alone is None:        # fine on a Route of its own: the earlier builds on this Route object matter
                    core.add_violation(res, {'kind': 'shared', 'ast': [list(a) for a in rule], 'text': text, 'paths': [q for q, _ in seq[:i + 1]][-6:]},
                                       f'rule {text!r}: one Route object built the URLs for the paths {[q for q, _ in seq[:i + 1]][-6:]!r} in this order; '
                                       f'for the last one: {bad}', sig='shared-route')
                break
        res['outcomes'].add('shared route ok')


def check_hooked(res, rmod, rule):
    """a route hook on the very pattern of the rule, written with other wildcard names, installed before / after the route"""
    c = res['counters']
    if not any(a[0] == 'W' for a in rule):
        return
    text = rr.default_text(rule)
    for how in ('other', 'anon'):
        try:
            htext = rr.default_text(renamed(rule, how))
        except ValueError:
            continue
        if htext is None or (how == 'anon' and htext == rr.default_text(renamed(rule, 'other'))):
            continue
        for when in ('after', 'before', 'overwrite', 'after-then-removed'):
            res['states'] += 1
            for p in [q for q in paths_for(rule) if rr.match(rule, q.strip('/')) is not None][:60]:
                r = roundtrip(rmod, rule, text, p, hook=(htext, when))
                if r is not None and r[0] == 'nomatch':
                    continue
                res['transitions'] += 1
                c['hooked_roundtrips'] += 1
                res['nontrivial'] += 1
                res['outcomes'].add('hooked ' + ('ok' if r is None else r[0]))
                if r is not None:
                    core.add_violation(res, {'ast': [list(a) for a in rule], 'text': text, 'path': p, 'hook': [htext, when]},
                                       f'rule {text!r} with a route hook on {htext!r} installed {when} it, parameters from path {p!r}: {r[1]}',
                                       sig='hooked:' + r[0])


MALFORMED = ['/x/{:re(a.)}/{', '/{:int}/{bad', '/a/<:int>/<', '/a/{:int}/{x:re(}', '/a/<:re:a+>/<b', '/m/{:re(a.)}/{name}/{:re(b.)}/{x:int(}', '/a/{n:int}/{']
REFUSERS = ['refused-add', 'refused-remove', 'refused-hook', 'refused-lookup']


def check_refused(res, rmod, rule):
    """the rule is registered right after a malformed rule text was refused (fresh import per combination: parsing state is process-wide)"""
    c = res['counters']
    text = rr.default_text(rule)
    was, THOROUGH[0] = THOROUGH[0], False          # (the paths generated from the rule itself, in every tier)
    own_paths = [p for p in paths_for(rule) if rr.match(rule, p.strip('/')) is not None][:12]
    THOROUGH[0] = was
    for bad in MALFORMED:
        for how in REFUSERS:
            sut.load(fresh=True)
            rm = sut.sub('router.radirouter')
            res['states'] += 1
            for p in own_paths:
                r = roundtrip(rm, rule, text, p, hook=(bad, how))
                if r is not None and r[0] == 'nomatch':
                    continue
                res['transitions'] += 1
                c['after_refused_parse'] += 1
                res['nontrivial'] += 1
                res['outcomes'].add('after a refused rule: ' + ('ok' if r is None else r[0]))
                if r is not None and r[0] != 'malformed-accepted':
                    core.add_violation(res, {'ast': [list(a) for a in rule], 'text': text, 'path': p, 'hook': [bad, how], 'fresh': True},
                                       f'after the malformed rule text {bad!r} was refused by {how[8:]}(), rule {text!r}, parameters from path {p!r}: {r[1]}',
                                       sig='after-refused:' + r[0])
                    break
    sut.load(fresh=True)


def check_rule(res, rmod, rule):
    c = res['counters']
    texts = rr.renderings(rule)
    for fl, text in texts.items():
        res['states'] += 1
        for p in paths_for(rule):
            r = roundtrip(rmod, rule, text, p)
            if r is not None and r[0] == 'nomatch':
                continue
            res['transitions'] += 1
            c['roundtrips'] += 1
            kinds = [a[2] for a in rule if a[0] == 'W']
            nontriv = False
            if any(k in ('int', 'float') for k in kinds):
                c['with_conversion'] += 1
                nontriv = True
            if any(a[0] == 'W' and a[1] is None for a in rule):
                c['with_anonymous'] += 1
                nontriv = True
            if any(rule[i][0] == 'W' and rule[i + 1][0] == 'W' for i in range(len(rule) - 1)):
                c['adjacent_wildcards'] += 1
                nontriv = True
            if 'path' in kinds:
                c['path_filter'] += 1
                nontriv = True
            if nontriv:
                res['nontrivial'] += 1
            res['outcomes'].add('filters ' + ','.join(str(k) for k in kinds) + ': ' + ('ok' if r is None else r[0]))
            if r is not None:
                sig = r[0]
                if r[0].startswith('url-raised:AssertionError') and 'path' in kinds:
                    sig = 'path-filter-then-literal'
                elif 'float' in kinds and r[0] in ('no-way-back', 'other-values'):
                    sig = 'float-format'
                core.add_violation(res, {'ast': [list(a) for a in rule], 'text': text, 'path': p},
                                   f'rule {text!r}, parameters from path {p!r}: {r[1]}', sig=sig)


def work(spec):
    kind, i, tier = spec
    THOROUGH[0] = tier == 'thorough'
    res = core.new_result()
    sut.load()
    rmod = sut.sub('router.radirouter')
    if kind == 'order':
        # filters are built once per process: the order in which rules (of ANY router) were parsed must not matter
        for pair in (SAME_MASK[i], SAME_MASK[i][::-1]):
            sut.load(fresh=True)
            rmod = sut.sub('router.radirouter')
            for rule in pair:
                rmod.Route(rr.default_text(rule))         # parse both rules first (fills the process-wide filter cache)
            for rule in pair:
                before = len(res['violations'])
                check_rule(res, rmod, rule)
                for v in res['violations'][before:]:
                    v['case']['after_rules'] = [rr.default_text(r) for r in pair]
                    v['sig'] = 'filter-order:' + (v['sig'] or '')
        sut.load(fresh=True)
        core.add_sample(res, {'same_mask_pair': [rr.default_text(r) for r in SAME_MASK[i]], 'orders': 2})
    elif kind == 'pair':
        check_pair(res, rmod, PAIRS[i], tier)
        core.add_sample(res, {'rule_pair': [rr.default_text(r) for r in PAIRS[i]], 'paths': len(pair_paths(PAIRS[i], tier))})
    elif kind == 'hooked':
        u = universe()
        for rule in u[i:i + 8]:
            check_hooked(res, rmod, rule)
            check_shared(res, rmod, rule)
        core.add_sample(res, {'hooked_rules': [rr.default_text(r) for r in u[i:i + 8]]})
    elif kind == 'decctx':
        # the application computes money with a narrow decimal context (precision 6, or trapping inexact results) on this thread
        import decimal
        saved = decimal.getcontext().copy()
        try:
            ctx = decimal.getcontext()
            if i == 0:
                ctx.prec = 6
            else:
                ctx.traps[decimal.Inexact] = True
                ctx.prec = 4
            for rule in [r for r in universe() if any(a[0] == 'W' and a[2] == 'float' for a in r)]:
                before = len(res['violations'])
                check_rule(res, rmod, rule)
                res['counters']['under_decimal_context'] += 1
                for v in res['violations'][before:]:
                    v['case']['decctx'] = i
                    v['sig'] = 'decimal-context:' + (v['sig'] or '')
        finally:
            decimal.setcontext(saved)
        core.add_sample(res, {'decimal_context': ['prec=6', 'prec=4 + Inexact trap'][i]})
    elif kind == 'refused':
        rule = universe()[i]
        check_refused(res, rmod, rule)
        core.add_sample(res, {'rule_after_refused_rule_texts': rr.default_text(rule), 'malformed': MALFORMED, 'refused_by': REFUSERS})
    elif kind == 'rule':
        rule = universe()[i]
        check_rule(res, rmod, rule)
        core.add_sample(res, {'rule': rr.default_text(rule), 'flavours': list(rr.renderings(rule).values()), 'paths': paths_for(rule)[:6]})
    else:
        atom = [W('x', 're', 'a|ab'), W('x', 're', '[^/]+'), W('x', 're', r'\d+\.\d+'), W('x', 're', '.')][i]
        for rule in [(atom,), (L('a/'), atom, L('/b')), (atom, L('b')), (L('a'), atom, W('y', 'int'))]:
            check_rule(res, rmod, rule)
        core.add_sample(res, {'extra_atom': list(atom)})
    res['execs'] = res['transitions']
    return res


def replay(case):
    if 'decctx' in case:
        import decimal
        saved = decimal.getcontext().copy()
        try:
            ctx = decimal.getcontext()
            if case['decctx'] == 0:
                ctx.prec = 6
            else:
                ctx.traps[decimal.Inexact] = True
                ctx.prec = 4
            r = replay({k: v for k, v in case.items() if k != 'decctx'})
        finally:
            decimal.setcontext(saved)
        return None if r is None else ('the calling thread works with the decimal context ' + ['prec=6', 'prec=4 with the Inexact trap'][case['decctx']] + ': ' + r)
    sut.load(fresh=bool(case.get('after_rules')) or bool(case.get('fresh')))
    rmod = sut.sub('router.radirouter')
    for t in case.get('after_rules') or []:
        rmod.Route(t)
    if case.get('kind') == 'shared':
        rule = tuple(tuple(a) for a in case['ast'])
        router = rmod.RadiRouter()
        route = router.add(case['text'], 'GET', lambda **kw: kw)
        last = None
        for p in case['paths']:
            vals = rr.match(rule, p.strip('/'))
            named = {k: v for k, v in vals if k is not None}
            anon = [v for k, v in vals if k is None]
            try:
                url = route.url(*anon, **named)
                back = rr.match(rule, url.strip('/'))
                ok = back is not None and [v for _, v in back] == [v for _, v in vals]
                last = None if ok else f'url {url!r} built from {vals!r} matches with {back!r}'
            except Exception as e:   # noqa
                last = f'url() raised {type(e).__name__}: {e}'
        if last is None:
            return None
        return f'rule {case["text"]!r}: one Route object builds the URLs for the paths {case["paths"]!r} one after the other; for the last one: {last}'
    if case.get('kind') == 'pair':
        pair = tuple(tuple(tuple(a) for a in r) for r in case['pair'])
        res = core.new_result()
        saved = pair_paths
        try:
            globals()['pair_paths'] = lambda pr, tier: [case['path']]
            check_pair(res, rmod, pair, 'quick')
        finally:
            globals()['pair_paths'] = saved
        vs = [v for v in res['violations'] if v['case']['order'] == case['order']]
        return vs[0]['what'] if vs else None
    rule = tuple(tuple(a) for a in case['ast'])
    r = roundtrip(rmod, rule, case['text'], case['path'], hook=tuple(case['hook']) if case.get('hook') else None)
    if case.get('hook') and case['hook'][1].startswith('refused-'):
        if r is None or r[0] in ('nomatch', 'malformed-accepted'):
            return None
        return (f'after the malformed rule text {case["hook"][0]!r} was refused by {case["hook"][1][8:]}(), rule {case["text"]!r} is registered and '
                f'matches path {case["path"]!r}; {r[1]}')
    if case.get('hook') and r is not None and r[0] != 'nomatch':
        return f'rule {case["text"]!r} with a route hook on {case["hook"][0]!r} installed {case["hook"][1]} it matches path {case["path"]!r}; {r[1]}'
    if r is None or r[0] == 'nomatch':
        return None
    pre = f'after the rules {case["after_rules"]} were parsed in this process: ' if case.get('after_rules') else ''
    return f'{pre}rule {case["text"]!r} matches path {case["path"]!r}; {r[1]}'

MANIFEST['text'] += " Literals containing percent signs and rules registered right after a malformed rule text was refused (by add / remove / add_hook / lookup, fresh import each) are layers of the universe."
MANIFEST['text'] += " Hooks installed and removed again, and rule pairs that split each other's tail node, are included."
