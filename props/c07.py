"""C07 — multipart forms and uploads round-trip exactly.

Engine: E-ENUM.  Every list of 0..3 parts over a 32-part universe (text fields and file uploads whose names and file
names contain ';', '=', spaces, backslashes, quotes-free punctuation and non-ASCII text; empty, UTF-8 and
delimiter-look-alike values; binary contents with every byte value, CR / LF / dash soup and partial boundaries;
repeated names, also a text and a file part under one name) is encoded by an independent multipart encoder for
every boundary of a list (plain, all RFC 2046 punctuation - sent quoted and unquoted -, 70 characters, a lone dash),
two in-memory thresholds and both framings, and posted through Ombott.__call__.
Oracle: inside the handler, forms / files / POST equal the dict-of-lists reference model: text in forms, uploads
(raw file name, content type, byte-exact content) in files, repeated names as lists in submission order.
"""
import itertools

from vf import core, sut, wsgi, refmp

ID = 'C07'
TITLE = 'Multipart forms and uploads round-trip exactly'
ENGINE = 'E-ENUM (field lists x boundaries x thresholds x framing through Ombott.__call__ vs a dict-of-lists model)'
RULE = ('states = distinct (field list, boundary, threshold, framing) requests; transitions = WSGI calls; non-trivial = lists '
        'with a repeated name, a separator character in a name / file name, non-ASCII text or binary look-alike content')
ASSUMPTIONS = ['names and file names are free of double quotes and line breaks; an empty file name is not an upload',
               'the upload content type is read as upload.content_type, or its .value when that is a parsed header object',
               'bodies in which CRLF--boundary would occur inside content are not generated (a sender never picks such a boundary)',
               'thresholds are large enough for the header blocks and text values (the in-memory budget is C13\'s subject)']
MANIFEST = {
    'engines': ['E-ENUM'],
    'technique': 'bounded-exhaustive enumeration of field lists (<=3 parts from a 32-part universe) x boundaries x thresholds x '
                 'framing, encoded by an independent encoder, posted to the real application and compared with a dict-of-lists model',
    'text': 'All lists of up to 2 parts in every configuration and all 3-part lists (quick: over a 10-part core) are posted; '
            'forms, files (raw file name, content type, bytes) and POST seen by the handler must equal the reference model.',
    'note': 'Bounds: <=3 parts, 32-part universe, 7 boundary spellings, thresholds {400, default}, Content-Length / 7-byte chunks / chunks of max_memfile_size bytes. '
            'Trusted: the reference encoder vf/refmp.py.',
}

B70 = "0123456789abcdefghijklmnopqrstuvwxyzABCDEFGHIJKLMNOPQRSTUVWXYZ'()+_,./:=?"[:70]
BOUNDARIES = [('BND', False), ("a'()+_,-./:=?", True), ("a'()+_,-./:=?", False), (B70, False), ('-', False), ('B D', True), (' lead:blank', True)]
SOUP = b'\r\n--BN\r\n-\r--\n--BND-\r\n--BN'
TEXTS = [('a', ''), ('a', 'v'), ('b', 'ü€'), ('a;b', 'x=y;z'), ('a=b', ' lead '), ('a b', 'l1\r\nl2'), ('ü', '--BND'), ('a\\b', '\r\n--BN'),
         ("a'b", 'v2'), ('b', 'w'), ('c', '\r\n'), ('a', 'third')]
FILES = [('f', 'f.txt', 'text/plain', b''), ('f', 'my;file.txt', 'text/plain', b'x'), ('g', 'a=b.bin', 'application/octet-stream', bytes(range(256))),
         ('a', 'ü.txt', 'text/plain', SOUP), ('f', 'c:\\d\\f.txt', 'application/octet-stream', b'x'), ('h', 'sp ace.txt', 'text/plain', b'\r\n'),
         ('a;b', 'n.bin', 'application/octet-stream', b'--'), ('g', 'f.txt', 'text/plain', b'second'), ('ü', 'ü€.txt', 'text/plain', 'ü€'.encode('utf8')),
         ('b', "it's.txt", 'text/plain', b'-'), ('f', 'f.txt', 'image/png', b'\x89PNG\r\n\x1a\n'), ('a=b', 'x', 'text/plain', b'\r\n--'),
         # uploads that send no Content-Type of their own, and UNC-style names with runs of backslashes
         ('f', 'raw.bin', None, b'no-ctype'), ('g', '\\\\srv\\share\\r.txt', None, b'unc')]
TEXTS += [('k\\\\v', 'two backslashes'), ('k\\v', 'one backslash')]


def universe():
    u = [('t', n, v) for n, v in TEXTS] + [('f', n, fn, ct, data) for n, fn, ct, data in FILES]
    # names and file names that begin or end in white space (inside the quotes it belongs to the name: 'a ', ' a' and 'a' are three fields)
    u += [('t', 'a ', 'name with a trailing blank'), ('t', ' a', 'v'), ('f', 'f ', ' pad.txt ', 'text/plain', b'p'), ('t', 'a\t', 'tab')]
    return u


CORE = [0, 1, 3, 5, 9, 12, 13, 15, 20, 21, 24, 25, 28, 30]


def encode(parts, boundary):
    ps = []
    for p in parts:
        if p[0] == 't':
            ps.append((refmp.cd(p[1]), p[2].encode('utf8')))
        else:
            ps.append((refmp.cd(p[1], p[2], p[3]), p[4]))
    body, lay = refmp.build(boundary.encode('latin1'), ps, epilogue=b'\r\n')
    ok = refmp.well_formed(body, boundary.encode('latin1'), len(ps))
    return body, ok


def model(parts):
    forms, files, post = {}, {}, {}

    def put(d, k, v):
        if k in d:
            if isinstance(d[k], list) and d[k] and d[k][0] == '__list__':
                d[k].append(v)
            else:
                d[k] = ['__list__', d[k], v]
        else:
            d[k] = v
    for p in parts:
        if p[0] == 't':
            put(forms, p[1], ('text', p[2]))
            put(post, p[1], ('text', p[2]))
        else:
            up = ('file', p[2], p[3], p[4], ('content-disposition',) + (('content-type',) if p[3] else ()))
            put(files, p[1], up)
            put(post, p[1], up)

    def fin(d):
        return {k: (v[1:] if isinstance(v, list) and v and v[0] == '__list__' else v) for k, v in d.items()}
    return fin(forms), fin(files), fin(post)


def shards(tier, seed):
    u = universe()
    out = []
    for bi in range(len(BOUNDARIES)):
        out.append(('upto2', bi, None))
    pool = CORE if tier == 'quick' else list(range(len(u)))
    for first in pool:
        out.append(('triples', first, 'core' if tier == 'quick' else 'all'))
    if tier == 'thorough':
        for first in CORE:
            for second in CORE:
                out.append(('quads', first, second))
    # seed extension: one more part joins the universe (all pairs containing it)
    out.append(('extra', seed % 4, None))
    return out


def bounds(tier, seed):
    return {'parts': len(universe()), 'max_parts': 3, 'triples_over': '10-part core' if tier == 'quick' else 'whole universe',
            'boundaries': [b for b, q in BOUNDARIES], 'thresholds': [400, 102400], 'framing': ['content-length', 'chunked(7)', 'chunked(max_memfile_size)']}


FLOORS = {'posts': 3000, 'repeated_names': 300, 'text_and_file_same_name': 20, 'spilled_to_disk': 100, 'quoted_boundary': 100}


def see(v):
    """render what the handler saw in the model's vocabulary"""
    if isinstance(v, list):
        return [see(x) for x in v]
    if isinstance(v, str):
        return ('text', v)
    ct = v.content_type
    ct = getattr(ct, 'value', ct)
    f = v.file
    f.seek(0)
    return ('file', v.raw_filename, ct or None, f.read(), tuple(sorted(str(k).lower() for k in v.headers.keys())))


def post_once(om, parts, boundary, quoted, M, framing):
    body, ok = encode(parts, boundary)
    if not ok:
        return None
    app = om.Ombott({'max_memfile_size': M})
    seen = {}

    def h():
        rq = app.request
        seen['forms'] = {k: see(v) for k, v in rq.forms.items()}
        seen['files'] = {k: see(v) for k, v in rq.files.items()}
        seen['post'] = {k: see(v) for k, v in rq.POST.items()}
        seen['kind'] = 'memory' if hasattr(rq.body, 'getvalue') else 'file'
        # uploads are windows onto one buffered body: interleaved partial reads must not disturb each other
        ups = [u for v in rq.files.values() for u in (v if isinstance(v, list) else [v])]
        for u in ups:
            u.file.seek(0)
        heads = [u.file.read(3) for u in ups]
        rq.body.read(5)
        mids = [u.file.read(2) for u in reversed(ups)][::-1]
        tails = [u.file.read() for u in ups]
        seen['interleaved'] = [h + m + t for h, m, t in zip(heads, mids, tails)]

        def stream():
            # the answer is streamed: the uploads are read once more while the server iterates (after the handler function returned)
            yield 'o'
            late = []
            for u in ups:
                u.file.seek(0)
                late.append(u.file.read())
            seen['late'] = late
            yield 'k'
        return stream()
    app.route('/u', 'POST', h)
    b = f'"{boundary}"' if quoted else boundary
    ctype = 'multipart/form-data; boundary=' + b
    if framing == 'chunked':
        # 7-byte chunks; bodies of even length above the threshold travel in chunks of exactly the threshold (the decoder's read block)
        step = M if (len(body) > M and len(body) % 2 == 0) else (7 if len(body) % 3 else 11)
        pieces = [body[i:i + step] for i in range(0, len(body), step)]
        # (11-byte chunks are announced as 'B': hex digits are case-insensitive; some clients add a chunk extension)
        env = wsgi.environ('POST', '/u', body=refmp.chunked_encode(pieces, hexfmt='%X', ext=b';n=1' if len(body) % 5 == 0 else b''), ctype=ctype, chunked=True)
    elif framing == 'cl-short':
        from props.c06 import ShortStream       # a connection that answers every read with about half of what was asked for
        env = wsgi.environ('POST', '/u', input=ShortStream(body, 'half'), clen=len(body), ctype=ctype)
    else:
        env = wsgi.environ('POST', '/u', body=body, ctype=ctype)
    c = wsgi.call(app, env)
    return c, seen, body


def judge(om, parts, boundary, quoted, M, framing):
    r = post_once(om, parts, boundary, quoted, M, framing)
    if r is None:
        return 'skip', None, None
    c, seen, body = r
    forms, files, post = model(parts)
    if c.code != 200 or 'post' not in seen:
        tail = c.errors.strip().splitlines()[-1] if c.errors.strip() else ''
        return ('status', f'status {c.status} ({tail[:120]})'), seen, body
    for label, got, exp in (('forms', seen['forms'], forms), ('files', seen['files'], files), ('POST', seen['post'], post)):
        if got != exp:
            return (label, f'{label} seen by the handler {abbreviate(got)}, sent {abbreviate(exp)}'), seen, body
    exp_inter = [u[3] for v in files.values() for u in (v if isinstance(v, list) else [v])]
    if seen.get('interleaved') != exp_inter:
        return ('interleaved-reads', f'uploads read in interleaved pieces (3 bytes of each, 5 bytes of request.body, 2 bytes of each, rest) '
                                     f'give {[x[:20] for x in seen.get("interleaved") or []]!r}, contents are {[x[:20] for x in exp_inter]!r}'), seen, body
    if seen.get('late') != exp_inter:
        return ('late-reads', f'uploads read again while the answer is streamed (after the handler returned) give '
                              f'{[x[:20] for x in seen.get("late") or []]!r}, contents are {[x[:20] for x in exp_inter]!r}'), seen, body
    return None, seen, body


def abbreviate(d):
    def ab(v):
        if isinstance(v, list):
            return [ab(x) for x in v]
        if isinstance(v, tuple) and v and v[0] == 'file':
            return ('file', v[1], v[2], v[3] if len(v[3]) <= 24 else v[3][:24] + b'...(%d bytes)' % len(v[3]), v[4])
        return v
    return {k: ab(v) for k, v in d.items()}


def classify(parts, what):
    names = [p[1] for p in parts]
    if what[0] == 'status':
        if 'boundary' in what[1].lower():
            return 'status:boundary'
        return 'status'
    mixed = any(p[0] == 't' and q[0] == 'f' and p[1] == q[1] for p in parts for q in parts)
    semi = any(';' in p[1] or (p[0] == 'f' and ';' in p[2]) for p in parts)
    if semi:
        return what[0] + ':semicolon-in-quoted-parameter'
    if mixed:
        return what[0] + ':text-and-file-share-a-name'
    return what[0]


_prev = {}


def judge_case(om, case):
    return judge(om, [tuple(p) for p in case['parts']], case['boundary'], case['quoted'], case['M'], case['framing'])


def run(res, om, parts, boundary, quoted, M, framing):
    c = res['counters']
    case = {'parts': [list(p) for p in parts], 'boundary': boundary, 'quoted': quoted, 'M': M, 'framing': framing}
    core.track(res, case)
    v, seen, body = judge(om, parts, boundary, quoted, M, framing)
    if v is not None and v != 'skip':
        # does the request fail on its own, or only after the request served before it in this process?
        fresh = sut.load(fresh=True)
        v1, _, _ = judge_case(fresh, case)
        if v1 is None and _prev.get('case') is not None:
            fresh = sut.load(fresh=True)
            judge_case(fresh, _prev['case'])
            v2, _, _ = judge_case(fresh, case)
            if v2 is not None and v2 != 'skip':
                core.add_violation(res, {'seq': [_prev['case'], case]},
                                   f'after another multipart request in the same process: {v2[1]}', sig='history:' + v2[0])
                c['history_dependent'] += 1
            v = None
        sut.load(fresh=True)
    _prev['case'] = case
    if v == 'skip':
        c['ambiguous_bodies_skipped'] += 1
        return
    res['states'] += 1
    res['transitions'] += 1
    c['posts'] += 1
    names = [p[1] for p in parts]
    nontriv = False
    if len(set(names)) < len(names):
        c['repeated_names'] += 1
        nontriv = True
        if any(p[0] == 't' and q[0] == 'f' and p[1] == q[1] for p in parts for q in parts):
            c['text_and_file_same_name'] += 1
    if seen and seen.get('kind') == 'file':
        c['spilled_to_disk'] += 1
    if quoted:
        c['quoted_boundary'] += 1
    if nontriv or any(ch in n for n in names for ch in ';= \\\'ü'):
        res['nontrivial'] += 1
    res['outcomes'].add((f'{len(parts)} parts ({sum(1 for p in parts if p[0] == "t")} text, repeated names: {len(set(names)) < len(names)}) {seen.get("kind") if seen else None}: ') + ('ok' if v is None else v[0]))
    if v is not None:
        sig = classify(parts, v)
        if quoted and v[0] in ('status', 'forms', 'files', 'POST') and not seen.get('post'):
            sig = 'quoted-boundary'
        core.add_violation(res, case, f'{len(parts)} parts boundary={boundary!r} quoted={quoted} M={M} {framing}: {v[1]}', sig=sig)


def configs_for(i):
    bi = i % len(BOUNDARIES)
    return BOUNDARIES[bi], (400, 102400)[(i // 2) % 2], ('cl', 'chunked', 'cl-short')[i % 3]


def work(spec):
    kind, a, b = spec
    res = core.new_result()
    om = sut.load()
    u = universe()
    if kind == 'upto2':
        boundary, quoted = BOUNDARIES[a]
        for n in (0, 1, 2):
            for combo in itertools.product(range(len(u)), repeat=n):
                parts = [u[i] for i in combo]
                for M in (400, 102400):
                    for framing in ('cl', 'chunked'):
                        run(res, om, parts, boundary, quoted, M, framing)
        core.add_sample(res, {'boundary': boundary, 'quoted': quoted, 'lists': '0..2 parts over 24', 'example': core.jsonable(u[3])})
    elif kind == 'quads':
        k = a * 31 + b
        for j, l in itertools.product(CORE, repeat=2):
            parts = [u[a], u[b], u[j], u[l]]
            (boundary, quoted), M, framing = configs_for(k)
            k += 1
            run(res, om, parts, boundary, quoted, 2000 if M == 400 else M, framing)
        core.add_sample(res, {'first_parts': [core.jsonable(u[a]), core.jsonable(u[b])], 'four_part_lists': len(CORE) ** 2})
    elif kind == 'triples':
        pool = CORE if b == 'core' else list(range(len(u)))
        k = 0
        for j, l in itertools.product(pool, repeat=2):
            parts = [u[a], u[j], u[l]]
            if b == 'all':
                # thorough: every boundary spelling, rotating threshold / framing
                for bi, (boundary, quoted) in enumerate(BOUNDARIES):
                    run(res, om, parts, boundary, quoted, (400, 102400)[(k + bi) % 2], ('cl', 'chunked', 'cl-short')[(k // 2 + bi) % 3])
                k += 1
                continue
            (boundary, quoted), M, framing = configs_for(k)
            k += 1
            run(res, om, parts, boundary, quoted, M, framing)
        core.add_sample(res, {'first_part': core.jsonable(u[a]), 'triples': len(pool) ** 2})
    else:
        extra = [('t', 'a', 'x' * 300), ('f', 'f', 'a b;c=d.txt', 'text/plain', b'\r\n--BND-'), ('t', 'ü;ü', 'é'), ('f', 'file', '.', 'x/y', b'\0' * 50)][a]
        for i in range(len(u)):
            for order in ((extra, u[i]), (u[i], extra), (extra, u[i], extra)):
                for (boundary, quoted) in BOUNDARIES[:3]:
                    run(res, om, list(order), boundary, quoted, 1000, 'cl')
    core.untrack()
    res['execs'] = res['transitions']
    return res


def replay(case):
    om = sut.load()
    if 'seq' in case:
        fresh = sut.load(fresh=True)
        v = None
        for cs in case['seq']:
            v, _, _ = judge_case(fresh, cs)
        if v is None or v == 'skip':
            return None
        d = [[(p[0], p[1]) + ((p[2], p[3]) if p[0] == 'f' else ()) for p in cs['parts']] for cs in case['seq']]
        return f'two multipart posts served one after the other in one process, {d[0]} then {d[1]}: the second one: {v[1]}'
    parts = [tuple(p) for p in case['parts']]
    v, seen, body = judge(om, parts, case['boundary'], case['quoted'], case['M'], case['framing'])
    if v is None or v == 'skip':
        return None
    desc = [(p[0], p[1]) + ((p[2],) if p[0] == 'f' else ()) for p in parts]
    return (f'multipart post of {desc} with boundary {case["boundary"]!r} ({"quoted" if case["quoted"] else "unquoted"}), '
            f'max_memfile_size={case["M"]}, {case["framing"]}: {v[1]}')

MANIFEST['text'] += ' Field and file names with leading / trailing blanks, a quoted boundary beginning with a blank and chunks of exactly max_memfile_size bytes are included.'
MANIFEST['text'] += ' Short-reading connections are a third framing; the handler streams its answer and reads the uploads again while the server iterates.'
