"""C11 — the router after any edit history equals a freshly built router.

Engine: E-HIST on the real router inside a real Ombott application.  Operations: add (accepted, duplicate,
filter-conflicting, name-conflicting, overwrite), remove by rule / by name / by prefix wildcard, route-hook
installation and removal, over a rule universe with shared prefixes, a wildcard sibling and hook-only prefixes.
BFS over all histories to a depth bound; states deduplicated by the CONCRETE router object graph (tree shape, indexes).
Oracle on every new state, against an independent survivor model (routes -> methods, names, hooks):
  * RadiRouter.routes, router[name], router[{rule}], router.hooks agree with the survivors;
  * for every probe path x method, resolve() gives the survivor's route, parameters and exactly the hooks whose rule
    is a prefix of the matched rule, outermost first, with the consumed path prefix - on the edited router AND on
    routers freshly built from the survivors in two orders (edited and fresh routers agreeing with each other but not
    with the statement is reported as a lookup defect; a fresh router disagreeing with both is an internal error);
  * through Ombott.__call__: the handler that ran and the (hook, prefix) calls, in order.
On every transition the model's accept/reject expectation is compared with the real outcome, and a rejected
operation without specified side effects must leave everything observable (indexes, all probe answers) unchanged.
"""
from vf import core, sut, wsgi
from vf import refrouter as rr
from vf.refrouter import L, W
from vf.hist import Search, Built
from vf.canon import Canon

ID = 'C11'
TITLE = 'The router after any edit history equals a freshly built router'
ENGINE = 'E-HIST (BFS over router edit histories on the real application, concrete-state deduplication, survivor model + fresh routers)'
RULE = ('states = distinct concrete router object graphs reached; transitions = operations applied; every new state is '
        'probed with ~25 paths x 3 methods on the edited router, on two freshly built routers and through WSGI; '
        'non-trivial = states reached through at least one removal or hook operation')
ASSUMPTIONS = [
    'after remove(prefix*) hooks at or below the prefix are unspecified (statement) and excluded from comparison until re-installed',
    'a name-conflicting add is modelled as the code orders it: route and method are registered, the name is not, an error is raised',
    'hooks fire only for successfully dispatched requests (405 / 404 run no route hook)',
]
MANIFEST = {
    'engines': ['E-HIST'],
    'technique': 'explicit-state BFS over edit histories (add / overwrite / rejected add / remove by rule, name, prefix / hook '
                 'add / hook remove) on the real router, deduplicated by the concrete object graph; each state compared with a '
                 'survivor model and with routers freshly built from the survivors',
    'text': 'All histories up to depth 3 (quick) / 5 (thorough) over a menu of 45 operations are replayed on fresh '
            'applications; every distinct concrete router state is probed on all paths and methods and compared with the '
            'survivor model, with freshly built routers (two insertion orders) and through Ombott.__call__ (hook invocations). A sub-universe is searched one level deeper on a router that is in use (all probe paths looked up after every edit).',
    'note': 'Bounds: 10 rules, 4 hook rules, 3 names, depth as stated. Trusted: the survivor model here, vf/refrouter.py.',
}

U = {
    '/a': (L('a'),), '/a/b': (L('a/b'),), '/a/b/c': (L('a/b/c'),), '/ab': (L('ab'),),
    '/a/{x}': (L('a/'), W('x')), '/a/{x}/c': (L('a/'), W('x'), L('/c')), '/a/{x:int}': (L('a/'), W('x', 'int')), '/q/z': (L('q/z'),),
    # two continuations that leave a filtered wildcard with different first characters (the wildcard node itself has no route)
    '/i/{n:int}/p': (L('i/'), W('n', 'int'), L('/p')), '/i/{n:int}-v': (L('i/'), W('n', 'int'), L('-v')),
    # a plain wildcard where the two rules above have a filtered one: acceptable only while none of them is registered
    '/i/{s}/q': (L('i/'), W('s'), L('/q')),
    # a rule written with a trailing slash is a rule of its own (request paths are stripped, so it matches nothing - but it is
    # registered, found by rule and removed under exactly this spelling)
    '/q/z/': (L('q/z/'),),
    # the root rule (its pattern is the empty string)
    '/': (L(''),),
}
# the rule '/a/{x}' in the two other spellings: one pattern, one route, whichever spelling registers, finds or removes it
U_SPELL = {'/a/<x>': (L('a/'), W('x')), '/a/:x': (L('a/'), W('x'))}
RMP_PATTERN = {'/i/{n:int}*': 'i/\r'}     # prefix removals whose prefix ends in a wildcard (rule text -> pattern prefix)
HOOKS = {'/a': (L('a'),), '/a/b': (L('a/b'),), '/q': (L('q'),), '/a/{y}': (L('a/'), W('y'))}    # the hook names its wildcard differently from the routes
NAMES = ['n1', 'n2', 'n3']
PROBES = ['/i/x/q', '/i/7/q', '/a', '/a/b', '/a/b/c', '/ab', '/a/1', '/a/zz', '/a/1/c', '/a/zz/c', '/i/7/p', '/i/7-v', '/i/7', '/i/x/p', '/q/z', '/', '/q', '/a/', '/a/b/', '/a/c',
          '/a/b/d', '/abc', '/a/b/c/d', '/a//c', '/q/zz', '/a/1/d', '/b', '/a/-5', '/a/-5/c', '/q/z/', '/a/b/c/']
METHODS = ['GET', 'POST', 'PUT', 'DELETE']
_canon = Canon(tb=False)


def menu():
    m = [('add', r) for r in U]
    m += [('addn', '/a/b', 'n1'), ('addn', '/a/{x}', 'n2'), ('addn', '/q/z', 'n1'), ('addn', '/a/b', 'n3'), ('addn', '/', 'n2')]   # n3 registers PUT: an alias
    # the same name repeated for another verb of the same rule; a name moved to another rule by an overwriting registration
    m += [('addnp', '/a/b', 'n1'), ('addno', '/q/z', 'n1'), ('addno', '/a/b', 'n2')]
    m += [('addo', '/a/b'), ('addo', '/a/{x}')]
    # one registration for several methods: rejected as a whole when any of them is taken (nothing may stay behind)
    m += [('addm', '/a/b', 'PG'), ('addm', '/a/{x}', 'GP'), ('addm', '/q/z', 'PO')]
    m += [('rm', r) for r in U if r != '/a/{x:int}']
    m += [('rmn', n) for n in NAMES]
    m += [('rmp', '/a/b*'), ('rmp', '/a*'), ('rmp', '/q*'), ('rmp', '/i/{n:int}*')]
    m += [('hook', r) for r in HOOKS]
    m += [('unhook', r) for r in HOOKS]
    return m


def menu_spell():
    """one pattern under three spellings and several verbs, searched one level deeper"""
    return [('add', '/a/{x}'), ('add', '/a/<x>'), ('adds', '/a/<x>', 'PUT'), ('adds', '/a/:x', 'DELETE'), ('adds', '/a/{x}', 'PUT'),
            ('rm', '/a/{x}'), ('rm', '/a/<x>'), ('rm', '/a/:x'), ('rmp', '/a*'), ('add', '/a/b'), ('addo', '/a/<x>'), ('hook', '/a/{y}'),
            ('addn', '/a/{x}', 'n2'), ('rmn', 'n2')]


def menu_inuse():
    """a sub-universe searched one level deeper, on a router that is IN USE: every edit is followed by lookups"""
    rs = ['/a/b', '/a/{x}', '/a/b/c']
    hs = ['/a', '/a/b', '/a/{y}']
    return ([('add', r) for r in rs] + [('rm', r) for r in rs] + [('rmp', '/a/b*'), ('rmp', '/a*')] + [('hook', h) for h in hs] +
            [('unhook', h) for h in hs] + [('addn', '/a/b', 'n1'), ('rmn', 'n1')])


INUSE = [False]
CHURN = [False]


def menu_churn():
    """rules with filtered wildcards, edited while ANOTHER router of the process registers many rules with filters of their own"""
    return [('add', '/a/{x:int}'), ('addm', '/a/{x:int}', 'PO'), ('add', '/i/{n:int}/p'), ('add', '/i/{n:int}-v'), ('rm', '/i/{n:int}/p'),
            ('add', '/a/{x}/c'), ('rmp', '/i/{n:int}*'), ('hook', '/a/{y}')]


def churn(om):
    """what other routers of the process do meanwhile: 130 rules with 130 different filters (filters are built by a process-wide factory)"""
    other = om.Ombott()
    for i in range(130):
        other.route('/churn%d/{v:re(k%dx)}' % (i, i), 'GET', lambda v: v)


def shards(tier, seed):
    depth = 3 if tier == 'quick' else 5
    m = menu()
    out = [('bfs', i, depth) for i in range(len(m))]
    out += [('inuse', i, 4 if tier == 'quick' else 6) for i in range(len(menu_inuse()))]
    out += [('spell', i, 4 if tier == 'quick' else 6) for i in range(len(menu_spell()))]
    out += [('churn', i, 3 if tier == 'quick' else 4) for i in range(len(menu_churn()))]
    out.append(('extra', seed % 3, 3))
    return out


def bounds(tier, seed):
    return {'menu': len(menu()), 'depth': 3 if tier == 'quick' else 5, 'rules': list(U), 'hook_rules': list(HOOKS), 'names': NAMES,
            'probe_paths': PROBES, 'methods': METHODS}


FLOORS = {'states_with_removal': 200, 'states_with_hooks': 200, 'rejected_ops': 100, 'resolve_probes': 50000,
          'hook_firings': 1000, 'wsgi_probes': 5000}


MULTI = {'PG': ['PUT', 'GET'], 'GP': ['GET', 'PUT'], 'PO': ['PUT', 'POST']}


def methods_of(op):
    k = op[0]
    if k == 'addn':
        return ['PUT'] if op[2] == 'n3' else ['POST']
    if k == 'addnp':
        return ['DELETE']
    if k == 'addno':
        return ['POST']
    if k == 'addm':
        return MULTI[op[2]]
    if k == 'adds':
        return [op[2]]
    return ['GET']


def fk_of(ast):
    return tuple(a[2] for a in ast if a[0] == 'W')


def wild_prefixes(ast):
    """(pattern prefix up to and including each wildcard, filter kind)"""
    out = []
    pat = ''
    for a in ast:
        if a[0] == 'L':
            pat += a[1]
        else:
            pat += '\r'
            out.append((pat, a[2]))
    return out


class Model:
    def __init__(self, rules=None, hooks=None):
        self.U = dict(rules or {**U, **U_SPELL})
        self.H = dict(hooks or HOOKS)
        self.routes = {}     # pattern -> {'rule', 'ast', 'methods'}
        self.names = {}      # name -> pattern
        self.hooks = {}      # pattern -> (hook id, ast)
        self.unspec = set()  # hook patterns whose fate is unspecified (after a prefix removal)

    def _conflict(self, ast):
        """'reject' when a wildcard of ast sits where a surviving route/hook has another filter, 'either' when only an
        unspecified hook could hold such a node, else None."""
        verdict = None
        for pfx, kind in wild_prefixes(ast):
            for pat, e in list(self.routes.items()) + [(p, {'ast': h[1]}) for p, h in self.hooks.items()]:
                for p2, k2 in wild_prefixes(e['ast']):
                    if p2 == pfx and k2 != kind:
                        return 'reject'
            for p in self.unspec:
                ast2 = self.H_ast_by_pattern(p)
                if ast2 is not None and any(p2 == pfx and k2 != kind for p2, k2 in wild_prefixes(ast2)):
                    verdict = 'either'
        return verdict

    def H_ast_by_pattern(self, pat):
        for r, ast in self.H.items():
            if rr.pattern(ast) == pat:
                return ast
        return None

    def expect(self, op):
        """-> 'accept' | 'reject' | 'either' (without changing the model)"""
        k = op[0]
        if k in ('add', 'addn', 'addo', 'addm', 'addnp', 'addno', 'adds'):
            ast = self.U[op[1]]
            pat = rr.pattern(ast)
            methods = methods_of(op)
            if pat in self.routes:
                if fk_of(self.routes[pat]['ast']) != fk_of(ast):
                    return 'reject'
                if any(m in self.routes[pat]['methods'] for m in methods) and k not in ('addo', 'addno'):
                    return 'reject'
            else:
                c = self._conflict(ast)
                if c:
                    return c
            if k in ('addn', 'addnp') and op[2] in self.names and self.names[op[2]] != pat:
                return 'reject'
            return 'accept'
        if k == 'rmn':
            return 'accept' if op[1] in self.names else 'reject'
        if k == 'hook':
            ast = self.H[op[1]]
            return self._conflict(ast) or 'accept'
        return 'accept'

    def apply(self, op, raised):
        """Update the survivors.  `raised` is the real outcome, used only where expect() says 'either'."""
        k = op[0]
        exp = self.expect(op)
        if exp == 'either':
            exp = 'reject' if raised else 'accept'
        if k in ('add', 'addn', 'addo', 'addm', 'addnp', 'addno', 'adds'):
            ast = self.U[op[1]]
            pat = rr.pattern(ast)
            methods = methods_of(op)
            hid = {'add': 'G:', 'addn': 'P:', 'addo': 'O:', 'addm': 'M:', 'addnp': 'Q:', 'addno': 'R:', 'adds': 'S:'}[k] + op[1]
            if exp == 'reject':
                # the only rejected add with specified side effects: a name conflict (route + method stay registered)
                name_conflict = (k in ('addn', 'addnp') and op[2] in self.names and self.names[op[2]] != pat)
                if not name_conflict:
                    return
                if pat in self.routes and (fk_of(self.routes[pat]['ast']) != fk_of(ast) or any(m in self.routes[pat]['methods'] for m in methods)):
                    return
                if pat not in self.routes and self._conflict(ast):
                    return
            r = self.routes.setdefault(pat, {'rule': op[1], 'ast': ast, 'methods': {}})
            for method in methods:
                r['methods'][method] = hid
            if k in ('addn', 'addnp', 'addno') and exp == 'accept':
                self.names[op[2]] = pat          # (an overwriting registration moves the name)
            return
        if k == 'rm':
            pat = rr.pattern(self.U[op[1]])
            self.routes.pop(pat, None)
            for n in [n for n, p in self.names.items() if p == pat]:
                del self.names[n]
            return
        if k == 'rmn':
            if exp == 'reject':
                return
            pat = self.names[op[1]]
            self.routes.pop(pat, None)
            for n in [n for n, p in self.names.items() if p == pat]:
                del self.names[n]
            return
        if k == 'rmp':
            pfx = RMP_PATTERN.get(op[1], op[1][1:-1])
            for pat in [p for p in self.routes if p.startswith(pfx)]:
                del self.routes[pat]
                for n in [n for n, p in self.names.items() if p == pat]:
                    del self.names[n]
            for pat in [p for p in self.hooks if p.startswith(pfx)]:
                del self.hooks[pat]
                self.unspec.add(pat)
            return
        if k == 'hook':
            if exp == 'reject':
                return
            ast = self.H[op[1]]
            pat = rr.pattern(ast)
            self.hooks[pat] = ('K:' + op[1], ast)
            self.unspec.discard(pat)
            return
        if k == 'unhook':
            pat = rr.pattern(self.H[op[1]])
            self.hooks.pop(pat, None)
            return
        raise AssertionError(op)

    # -- expectations ----------------------------------------------------------------------------------------
    def resolve(self, path, method):
        pats = list(self.routes)
        asts = [self.routes[p]['ast'] for p in pats]
        r = rr.resolve(asts, path)
        if r is None:
            return (404,)
        idx, params, _ = r
        route = self.routes[pats[idx]]
        cands = [method] + (['GET'] if method == 'HEAD' else []) + ['ANY']
        hid = next((route['methods'][c] for c in cands if c in route['methods']), None)
        if hid is None:
            return (405, ','.join(sorted(route['methods'])))
        stripped = path.strip('/')
        _, posmap = rr.consume(route['ast'], stripped)
        fired = []
        for hp, (kid, _) in sorted(self.hooks.items(), key=lambda kv: len(kv[0])):
            if pats[idx].startswith(hp):
                fired.append((posmap[len(hp)], kid))
        return ('ok', hid, params, tuple(fired))


def make_handler(app, hid):
    def h(**kw):
        app.response.headers['X-H'] = hid
        return hid
    h.hid = hid
    return h


def make_hook(log, kid):
    def k(prefix):
        log.append((kid, prefix))
    k.hid = kid
    return k


def apply_real(app, op, log):
    k = op[0]
    try:
        if k == 'add':
            app.route(op[1], 'GET', make_handler(app, 'G:' + op[1]))
        elif k == 'addn':
            app.route(op[1], 'PUT' if op[2] == 'n3' else 'POST', make_handler(app, 'P:' + op[1]), name=op[2])
        elif k == 'addnp':
            app.route(op[1], 'DELETE', make_handler(app, 'Q:' + op[1]), name=op[2])
        elif k == 'addno':
            app.route(op[1], 'POST', make_handler(app, 'R:' + op[1]), name=op[2], overwrite=True)
        elif k == 'addo':
            app.route(op[1], 'GET', make_handler(app, 'O:' + op[1]), overwrite=True)
        elif k == 'addm':
            app.route(op[1], list(MULTI[op[2]]), make_handler(app, 'M:' + op[1]))
        elif k == 'adds':
            app.route(op[1], op[2], make_handler(app, 'S:' + op[1]))
        elif k in ('rm', 'rmp'):
            app.remove_route(op[1])
        elif k == 'rmn':
            app.remove_route(name=op[1])
        elif k == 'hook':
            app.on_route(op[1], make_hook(log, 'K:' + op[1]))
        elif k == 'unhook':
            app.remove_route_hook(op[1])
        else:
            raise AssertionError(op)
        return None
    except AssertionError:
        raise
    except Exception as e:   # noqa
        return type(e).__name__


def build(om, hist, menu_rules=None):
    app = om.Ombott()
    log = []
    outcomes = []
    for op in hist:
        outcomes.append(apply_real(app, op, log))
        if CHURN[0]:
            churn(om)
        if INUSE[0]:
            # the router serves lookups between the edits
            for path in PROBES:
                try:
                    app.router.resolve(path, ['GET'])
                except Exception:   # noqa  (judged by the probes of the state, not here)
                    pass
    return app, log, outcomes


def model_of(hist, outcomes, rules=None, hooks=None):
    m = Model(rules, hooks)
    exps = []
    for op, out in zip(hist, outcomes):
        exps.append(m.expect(op))
        m.apply(op, out is not None)
    return m, exps


def fresh_from(om, model, reverse):
    app = om.Ombott()
    log = []
    items = sorted(model.routes.items(), reverse=reverse)
    for pat, r in items:
        for meth, hid in sorted(r['methods'].items(), reverse=reverse):
            names = sorted(n for n, p in model.names.items() if p == pat)
            app.route(r['rule'], meth, make_handler(app, hid), name=None)
        for n in sorted(n for n, p in model.names.items() if p == pat):
            app.router.named_routes[n] = app.router.routes[pat]
    for pat, (kid, ast) in sorted(model.hooks.items(), reverse=reverse):
        app.on_route(rr.default_text(ast) if ast else '/', make_hook(log, kid))
    return app, log


def observe(app, path, method, unspec_ids):
    try:
        end_point, err = app.router.resolve(path, [method] + (['GET'] if method == 'HEAD' else []) + ['ANY'])
    except Exception as e:   # noqa
        return ('EXC', f'{type(e).__name__}: {e}')
    if end_point is None:
        return (404,) if err[0] == 404 else (405, err[2])
    meth, params, hooks = end_point
    fired = []
    for pos, hk in hooks:
        simple = hk[0] if hk else None
        if simple is None:
            continue
        kid = getattr(simple, 'hid', '?')
        if kid in unspec_ids:
            continue
        fired.append((pos, kid))
    return ('ok', getattr(meth.handler, 'hid', '?'), params, tuple(fired))


def fingerprint(app, rules=None):
    """Everything the property lets a user observe of a router: indexes and the answers to all probes."""
    router = app.router
    out = [tuple(sorted(router.routes)), tuple(sorted(router.hooks))]
    for n in NAMES:
        r = router[n]
        out.append(r.pattern if r is not None else None)
    for rule in (rules or U):
        try:
            r = router[{rule}]
            out.append((r.pattern, tuple(sorted((m, getattr(rm.handler, 'hid', '?')) for m, rm in r.methods.items()))) if r is not None else None)
        except Exception as e:   # noqa
            out.append(type(e).__name__)
    for path in PROBES:
        for method in METHODS:
            out.append(repr(observe(app, path, method, set())))
    return tuple(out)


def judge_state(om, hist, built=None, rules=None, hooks=None):
    """-> (problems [(class, text)], internal [text], stats)"""
    app, log, outcomes = built or build(om, hist)
    model, exps = model_of(hist, outcomes, rules, hooks)
    probs = []
    internal = []
    stats = {'resolve_probes': 0, 'hook_firings': 0, 'wsgi_probes': 0}
    unspec_ids = {'K:' + r for r, ast in model.H.items() if rr.pattern(ast) in model.unspec}
    router = app.router
    # indexes
    if sorted(router.routes) != sorted(model.routes):
        probs.append(('index-routes', f'router.routes has {sorted(router.routes)!r}, survivors are {sorted(model.routes)!r}'))
    for n in NAMES:
        r = router[n]
        got = r.pattern if r is not None else None
        if got != model.names.get(n):
            probs.append(('index-names', f'router[{n!r}] -> {got!r}, survivors say {model.names.get(n)!r}'))
    for rule, ast in model.U.items():
        try:
            r = router[{rule}]
        except Exception as e:   # noqa
            probs.append(('index-rule', f'router[{{{rule!r}}}] raised {type(e).__name__}'))
            continue
        pat = rr.pattern(ast)
        exp = pat if (pat in model.routes and fk_of(model.routes[pat]['ast']) == fk_of(ast)) else None
        got = r.pattern if r is not None else None
        if got != exp:
            probs.append(('index-rule', f'router[{{{rule!r}}}] -> {got!r}, survivors say {exp!r}'))
    hk = sorted(p for p in router.hooks if p not in model.unspec)
    if hk != sorted(model.hooks):
        probs.append(('index-hooks', f'router.hooks has {hk!r}, surviving hooks are {sorted(model.hooks)!r}'))
    # resolution: edited router and two fresh routers against the model
    fresh = []
    for rev in (False, True):
        try:
            fresh.append(fresh_from(om, model, rev))
        except Exception as e:   # noqa
            internal.append(f'cannot build a fresh router from the survivors ({type(e).__name__}: {e}) after {hist!r}')
    for path in PROBES:
        for method in METHODS:
            exp = model.resolve(path, method)
            got = observe(app, path, method, unspec_ids)
            stats['resolve_probes'] += 1
            stats.setdefault('outcomes', set()).add(f'{exp[0]}' + (f' with {len(exp[3])} hook(s)' if exp[0] == 'ok' else ''))
            if exp[0] == 'ok':
                stats['hook_firings'] += len(exp[3])
            if got != exp and any(observe(fa, path, method, set()) == got for fa, fl in fresh):
                pass        # reported below as lookup-spec (fresh routers answer the same)
            elif got != exp:
                cls = 'resolve'
                if got[0] == 'ok' and exp[0] == 'ok' and got[:3] == exp[:3]:
                    cls = 'hooks'
                elif exp[0] == 404 and got[0] != 404:
                    cls = 'removed-still-answers'
                elif got[0] == 404 and exp[0] != 404:
                    cls = 'survivor-lost'
                probs.append((cls, f'{method} {path}: edited router {got!r}, survivors {exp!r}'))
            for fa, fl in fresh:
                gf = observe(fa, path, method, set())
                if gf != exp and gf == got:
                    # the edited router and a freshly built one agree with each other but not with the absolute part of the
                    # statement (which route, which hooks fire for it): a lookup defect, reported under the same oracle
                    if not any(cl == 'lookup-spec' for cl, _ in probs):
                        probs.append(('lookup-spec', f'{method} {path}: edited AND freshly built router answer {got!r}; by the statement '
                                                     f'(matching rule, hooks whose rule is a prefix of it) it must be {exp!r}'))
                elif gf != exp:
                    internal.append(f'fresh router disagrees with the model on {method} {path}: {gf!r} vs {exp!r} after {hist!r}')
    # through WSGI: handler and hook invocations
    for path in PROBES:
        del log[:]
        c = wsgi.call(app, wsgi.environ('GET', path))
        stats['wsgi_probes'] += 1
        exp = model.resolve(path, 'GET')
        fired = [(kid, pfx) for kid, pfx in log if kid not in unspec_ids]
        if exp[0] == 'ok':
            want = [(kid, '/' + path.strip('/')[:pos]) for pos, kid in exp[3]]
            if c.code != 200 or c.header('X-H') != exp[1] or fired != want:
                probs.append(('wsgi-hooks' if (c.code == 200 and c.header('X-H') == exp[1]) else 'wsgi',
                              f'GET {path}: status {c.status} handler {c.header("X-H")} hook calls {fired!r}; expected 200 {exp[1]} {want!r}'))
        else:
            if c.code != exp[0] or fired:
                probs.append(('wsgi', f'GET {path}: status {c.status}, hook calls {fired!r}; expected {exp[0]} and no hook'))
    return probs, internal, stats, (model, exps, outcomes)


def work(spec):
    INUSE[0] = spec[0] == 'inuse'
    CHURN[0] = spec[0] == 'churn'
    try:
        return _work(spec)
    finally:
        INUSE[0] = False
        CHURN[0] = False


def _work(spec):
    kind, a, depth = spec
    res = core.new_result()
    om = sut.load()
    c = res['counters']
    m = menu()
    rules = hooks = None
    if kind == 'extra':
        # one more rule / hook rule joins the universe
        extra_rule, extra_ast = [('/a/b/{y}', (L('a/b/'), W('y'))), ('/a-b', (L('a-b'),)), ('/a/{x}/c/d', (L('a/'), W('x'), L('/c/d')))][a]
        rules = dict(U)
        rules[extra_rule] = extra_ast
        hooks = dict(HOOKS)
        hooks[extra_rule] = extra_ast
        first = [('add', extra_rule), ('hook', extra_rule), ('rm', extra_rule), ('unhook', extra_rule)]
        m = m + first
    elif kind == 'inuse':
        m = menu_inuse()
        first = [m[a]]
    elif kind == 'spell':
        m = menu_spell()
        first = [m[a]]
    elif kind == 'churn':
        m = menu_churn()
        first = [m[a]]
    else:
        first = [m[a]]

    def on_state(hist, obj):
        probs, internal, stats, (model, exps, outcomes) = judge_state(om, hist, obj, rules, hooks)
        for k, v in stats.items():
            if k == 'outcomes':
                res['outcomes'] |= {'probe -> ' + x for x in v}
            else:
                c[k] += v
        if any(o[0] in ('rm', 'rmn', 'rmp') for o in hist):
            c['states_with_removal'] += 1
            res['nontrivial'] += 1
        elif any(o[0] in ('hook', 'unhook') for o in hist):
            res['nontrivial'] += 1
        if model.hooks:
            c['states_with_hooks'] += 1
        for t in internal[:2]:
            res['notes'].append('INTERNAL ' + t)
            c['model_vs_fresh_disagreements'] += 1
        res['outcomes'].add('state ok' if not probs else 'state ' + probs[0][0])
        for cls, text in probs[:2]:
            core.add_violation(res, {'kind': 'state', 'hist': [list(o) for o in hist], 'extra': a if kind == 'extra' else None, 'inuse': INUSE[0], 'churn': CHURN[0]},
                               f'after {list(hist)!r}: {text}', sig=cls)
        return not probs

    def on_transition(hist, op, kb, ka, obj):
        app, log, outcomes = obj
        model, exps = model_of(hist + (op,), outcomes, rules, hooks)
        exp, out = exps[-1], outcomes[-1]
        if exp == 'reject':
            c['rejected_ops'] += 1
            side_effects = op[0] in ('addn', 'addnp')          # name conflict keeps route + method (reference decision)
            if out is None:
                core.add_violation(res, {'kind': 'transition', 'hist': [list(o) for o in hist + (op,)], 'extra': a if kind == 'extra' else None, 'inuse': INUSE[0], 'churn': CHURN[0]},
                                   f'after {list(hist)!r} the operation {op!r} must be rejected, it was accepted', sig='accepted-bad-op')
            elif ka != kb and not side_effects and fingerprint(app, rules) != fingerprint(build(om, hist)[0], rules):
                core.add_violation(res, {'kind': 'transition', 'hist': [list(o) for o in hist + (op,)], 'extra': a if kind == 'extra' else None, 'inuse': INUSE[0], 'churn': CHURN[0]},
                                   f'after {list(hist)!r} the rejected operation {op!r} ({out}) changed the router', sig='reject-not-atomic')
        elif exp == 'accept' and out is not None:
            core.add_violation(res, {'kind': 'transition', 'hist': [list(o) for o in hist + (op,)], 'extra': a if kind == 'extra' else None, 'inuse': INUSE[0], 'churn': CHURN[0]},
                               f'after {list(hist)!r} the operation {op!r} raised {out}', sig='spurious-reject:' + out)

    def build_k(h):
        b = Built(build(om, h))
        model, _ = model_of(h, b[2], rules, hooks)
        b.mkey = (tuple(sorted((p, r['rule'], tuple(sorted(r['methods'].items()))) for p, r in model.routes.items())),
                  tuple(sorted(model.names.items())), tuple(sorted((p, h[0]) for p, h in model.hooks.items())), tuple(sorted(model.unspec)))
        return b
    # histories are merged only when the concrete router AND the survivor model agree
    s = Search(build_k, m, lambda obj: (_canon(obj[0].router), obj.mkey))
    s.run(depth, on_state, on_transition, first_ops=first)
    res['states'] = s.states
    res['transitions'] = s.transitions
    res['execs'] = s.transitions + c['resolve_probes'] + c['wsgi_probes']
    if c['model_vs_fresh_disagreements']:
        res['internal_error'] = 'reference model disagrees with freshly built routers: ' + '; '.join(res['notes'][:2])
    longest = max(s.seen.values(), key=len) if s.seen else ()
    core.add_sample(res, {'first_op': [list(o) for o in first][:2], 'depth': depth, 'states': s.states, 'new_states_per_level': s.levels,
                          'example_history_reaching_a_new_state': [list(o) for o in longest]})
    return res


def _extra(case):
    if case.get('extra') is None:
        return None, None
    extra_rule, extra_ast = [('/a/b/{y}', (L('a/b/'), W('y'))), ('/a-b', (L('a-b'),)), ('/a/{x}/c/d', (L('a/'), W('x'), L('/c/d')))][case['extra']]
    rules = dict(U)
    rules[extra_rule] = extra_ast
    hooks = dict(HOOKS)
    hooks[extra_rule] = extra_ast
    return rules, hooks


def replay(case):
    INUSE[0] = bool(case.get('inuse'))
    CHURN[0] = bool(case.get('churn'))
    try:
        r = _replay(case)
    finally:
        INUSE[0] = False
        CHURN[0] = False
    if r and case.get('churn'):
        r = 'another router of the process registers 130 rules with filters of their own after every operation: ' + r
    if r and case.get('inuse'):
        r = 'router in use (all probe paths looked up after every operation): ' + r
    return r


def _replay(case):
    om = sut.load()
    hist = tuple(tuple(o) for o in case['hist'])
    rules, hooks = _extra(case)
    if case['kind'] == 'state':
        probs, internal, _, _ = judge_state(om, hist, None, rules, hooks)
        if internal:
            raise RuntimeError('model disagrees with a fresh router: ' + internal[0])
        if not probs:
            return None
        return f'after the operations {list(hist)!r}: ' + '; '.join(t for _, t in probs[:3])
    app, log, outcomes = build(om, hist[:-1])
    kb = _canon(app.router)
    out = apply_real(app, hist[-1], log)
    ka = _canon(app.router)
    model, exps = model_of(hist, outcomes + [out], rules, hooks)
    exp = exps[-1]
    if exp == 'reject' and out is None:
        return f'after {list(hist[:-1])!r} the operation {hist[-1]!r} must be rejected, it was accepted'
    if exp == 'reject' and ka != kb and hist[-1][0] not in ('addn', 'addnp') and fingerprint(app, rules) != fingerprint(build(om, hist[:-1])[0], rules):
        return f'after {list(hist[:-1])!r} the rejected operation {hist[-1]!r} ({out}) changed the router'
    if exp == 'accept' and out is not None:
        return f'after {list(hist[:-1])!r} the operation {hist[-1]!r} raised {out}'
    return None

MANIFEST['text'] += ' A churn shard edits filtered-wildcard rules while another router of the process registers 130 rules with other filters after every operation.'
MANIFEST['text'] += ' A spelling shard registers, finds and removes one pattern under its three spellings one level deeper.'
