"""C02 — method dispatch: verb, ANY and HEAD fallbacks, 405 with exact Allow.

Engine: E-HIST.  A state is a real Ombott application after a history of registrations (any method subset incl.
ANY, lower-case spellings, lists, overwrite=True re-registration, rejected duplicates) and per-method removals
(Route.remove_method, RouteMethod.remove) on two rules, next to a static route.  BFS over all histories to a depth
bound, states deduplicated by the per-route method table read through the public API.
Oracle on every new state: for every request method in {GET, HEAD, POST, PUT, OPTIONS, ANY, get, Head} and every
path in {/x, /x/, /x/1, /y, /z}, the WSGI status, the handler that ran and the Allow header equal the reference
model (candidates [verb, GET if HEAD, ANY]; 405 with exactly the sorted registered names; 404 iff no route matches,
also for a route whose last method was removed: that is 405 with an empty Allow).  On every transition: a
registration the model rejects must raise and leave the state unchanged, one it accepts must not raise.
"""
from vf import core, sut, wsgi
from vf.hist import Search, Built
from vf.canon import Canon

_canon = Canon(tb=False)

ID = 'C02'
TITLE = 'Method dispatch: verb, ANY and HEAD fallbacks, 405 with exact Allow'
ENGINE = 'E-HIST (BFS over registration/removal histories on the real application, state = method tables)'
RULE = ('states = distinct per-route method tables reached; transitions = operations applied from those states; every new '
        'state is probed with 8 request methods x 5 paths through Ombott.__call__; non-trivial = states with >=2 methods '
        'on a route or an emptied route')
ASSUMPTIONS = ['lower-case request methods are judged for dispatch only (status, handler, Allow)',
               'handler identity is carried by a response header set by the handler (HEAD responses have no body)']
MANIFEST = {
    'engines': ['E-HIST'],
    'technique': 'explicit-state BFS over operation histories (register / overwrite / rejected register / remove method / serve a request) on '
                 'the real Ombott application; every reached method-table state probed with all request methods x paths '
                 'against a reference dispatch model',
    'text': 'All histories up to depth 3 (quick) / 5 (thorough) over a menu of 54 operations (registrations, removals, served requests) on two rules are replayed on '
            'fresh applications; each distinct method-table state is probed with 8 request methods x 5 paths and compared '
            'with the reference (handler, status, exact Allow); rejected registrations must not change the state. The search is repeated on an application with a scoped 404 handler, and every 405 is also requested as JSON.',
    'note': 'Bounds: 2 editable rules + 1 static, handler identities A/B, depth as stated. Trusted: the reference model here.',
}

RULES = ['/x', '/x/{p}']
SPECS = ['GET', 'HEAD', 'POST', 'ANY', 'get', ('GET', 'POST')]
METHODS = ['GET', 'HEAD', 'POST', 'ANY']
REQ_METHODS = ['GET', 'HEAD', 'POST', 'PUT', 'OPTIONS', 'ANY', 'get', 'Head', 'M-SEARCH', "X.Y_1~!'"]     # (any rfc7230 token is a method)
PATHS = ['/x', '/x/', '/x/1', '/y', '/z']


def menu():
    m = []
    for r in RULES:
        for s in SPECS:
            for ow in (False, True):
                m.append(('route', r, s, ow))
        for meth in METHODS:
            m.append(('rm', r, meth))
        m.append(('rmm', r, 'GET'))
        # several verbs removed by one call (some of them possibly not registered)
        m.append(('rml', r, ('HEAD', 'GET', 'POST')))
        m.append(('rml', r, ('PUT', 'ANY')))
    # the same rule written in another spelling (bottle style / colon style): it is the same route
    m += [('route', '/x/<p>', 'GET', True), ('route', '/x/:p', 'POST', True), ('route', '/x/<p>', 'HEAD', False), ('rm', '/x/:p', 'GET')]
    # an extension method (WebDAV / UPnP style) and the per-route interface with a single method name
    m += [('route', '/x', 'M-SEARCH', False), ('rm', '/x', 'M-SEARCH'), ('radd', '/x', 'POST'), ('radd', '/x/{p}', 'POST'), ('rset', '/x', 'GET'), ('rset', '/x/{p}', 'GET')]
    # serving a request is an operation too: it must not change how later requests are dispatched
    for meth, path in (('GET', '/x'), ('HEAD', '/x'), ('POST', '/x'), ('PUT', '/x'), ('HEAD', '/x/1'), ('POST', '/x/1')):
        m.append(('req', path, meth))
    return m


PATH_TOKENS = ['x', 'y', '/', '//', ':', 'http:', '[', ']', '@', '?', '#', '.', '..', ' ', '%', ';', '1']


def path_strings(n, first=None):
    import itertools
    for k in range(0, n + 1):
        for t in itertools.product(PATH_TOKENS, repeat=k):
            if first is not None and (not t or t[0] != first):
                continue
            yield '/' + ''.join(t)


def work_paths(res, om, first, n):
    """all request paths over URL-syntax tokens against a fixed application: 404 exactly for the paths that match no
    route, 405 / 200 for the ones that do (the path may look like a URL, an IPv6 literal, a query ...)"""
    app = om.Ombott()
    for rule, meth in (('/x', 'GET'), ('/x/{p}', 'GET'), ('/y', 'POST')):
        app.route(rule, meth, make_handler(app, 'H' + rule))
    m = Model()
    m.t = {'/x': {'GET': 'H/x'}, '/x/{p}': {'GET': 'H/x/{p}'}, '/y': {'POST': 'H/y'}}
    c = res['counters']
    for path in path_strings(n, first):
        for meth in ('GET', 'POST'):
            case = {'kind': 'path', 'path': path, 'method': meth}
            core.track(res, case)
            exp = m.expect(meth, path)
            got = probe(app, meth, path)
            res['states'] += 1
            res['transitions'] += 1
            c['path_probes'] += 1
            c['probes'] += 1
            if exp[0] in (404, 405):
                c['r%d' % exp[0]] += 1
            res['outcomes'].add(f'path probe -> {exp[0]}')
            if got[0] != exp[0] or (exp[0] == 200 and got[1] != exp[1]) or (exp[0] == 405 and got[2] != exp[2]):
                cls = 'path-status-%s' % got[0]
                core.add_violation(res, case, f'{meth} {path!r}: status {got[0]} handler {got[1]} Allow {got[2]!r}; expected {exp[:3]!r}', sig=cls)
    core.untrack()


def overlap_menu():
    m = [('route', r, sp, False) for r in ('/x/new', '/x/{p}') for sp in ('GET', 'POST', 'ANY', 'PUT')]
    m += [('rm', r, meth) for r in ('/x/new', '/x/{p}') for meth in ('GET', 'ANY')]
    return m


def shards(tier, seed):
    depth = 3 if tier == 'quick' else 5
    m = menu()
    # one shard per first operation (the search below each first op is independent)
    out = [('bfs', i, depth) for i in range(len(m))]
    out += [('paths', t, 3 if tier == 'quick' else 4) for t in PATH_TOKENS]
    # the same search on an application that has a scoped 404 handler (app.error(404, '/x')): 405 stays 405 under its prefix
    out += [('scoped', i, 2 if tier == 'quick' else 3) for i in range(0, len(m), 4)]
    # ... and on an application whose route hook below /x lets the application serve a request of its own first (GET /y)
    out += [('reenter', i, 2 if tier == 'quick' else 3) for i in range(0, len(m), 4)]
    # a literal rule below a wildcard rule (one path readable by both): the literal rule is THE matching route, whatever methods it has
    out += [('overlap', i, 3 if tier == 'quick' else 4) for i in range(len(overlap_menu()))]
    # seed extension: a third editable rule / another method joins the menu at depth 3
    out.append(('extra', seed % 3, 3))
    return out


def bounds(tier, seed):
    return {'menu': len(menu()), 'depth': 3 if tier == 'quick' else 5, 'rules': RULES + ['/y (static, GET)'],
            'request_methods': REQ_METHODS, 'paths': PATHS, 'path_enumeration': {'tokens': PATH_TOKENS, 'max_tokens': 3 if tier == 'quick' else 4}}


FLOORS = {'probes': 10000, 'via_verb': 1000, 'via_head_get': 100, 'via_any': 500, 'r405': 1000, 'r404': 1000,
          'rejected_registrations': 100, 'emptied_route_states': 5}


def upper_list(spec):
    return [s.upper() for s in (spec if isinstance(spec, tuple) else (spec,))]


def hid_of(op):
    return ('B' if op[3] else 'A') + ':' + ('+'.join(upper_list(op[2])))


def canon_rule(rule):
    return rule.replace('<p>', '{p}').replace(':p', '{p}')


class Model:
    def __init__(self):
        self.t = {'/y': {'GET': 'Y'}}

    def apply(self, op):
        """-> True when the operation must be accepted (no exception)"""
        kind, rule = op[0], canon_rule(op[1])
        if kind == 'req':
            return True
        if kind == 'route':
            ms = upper_list(op[2])
            tab = self.t.get(rule)
            if tab is not None and not op[3] and any(m in tab for m in ms):
                return False
            if tab is None:
                tab = self.t[rule] = {}
            for m in ms:
                tab[m] = hid_of(op)
            return True
        tab = self.t.get(rule)
        if tab is None:
            return True if kind == 'rm' else None      # removing from an unregistered rule: nothing to do
        if kind == 'radd':
            if op[2] in tab:
                return False
            tab[op[2]] = 'RA:' + op[2]
            return True
        if kind == 'rset':
            tab[op[2]] = 'RS:' + op[2]
            return True
        if kind == 'rmm' and op[2] not in tab:
            return None
        if kind == 'rml':
            for m in op[2]:
                tab.pop(m, None)
            return True
        tab.pop(op[2], None)
        return True

    def key(self):
        return tuple(sorted((r, tuple(sorted(t.items()))) for r, t in self.t.items()))

    def expect(self, method, path):
        segs = path.strip('/').split('/')
        rule = None
        for cand in sorted(self.t, key=lambda r: r.count('{')):      # literal rules first
            rs = cand.strip('/').split('/')
            if len(rs) == len(segs) and all((a == b) or (a.startswith('{') and b != '') for a, b in zip(rs, segs)):
                rule = cand
                break
        tab = self.t.get(rule) if rule else None
        if tab is None:
            return (404, None, None, None)
        M = method.upper()
        cands = [M] + (['GET'] if M == 'HEAD' else []) + ['ANY']
        for i, cnd in enumerate(cands):
            if cnd in tab:
                leg = 'via_verb' if i == 0 else ('via_head_get' if (M == 'HEAD' and cnd == 'GET') else 'via_any')
                return (200, tab[cnd], None, leg)
        return (405, None, ','.join(sorted(tab)), None)


def make_handler(app, hid):
    def h(p=None):
        app.response.headers['X-H'] = hid
        return hid
    h.hid = hid
    return h


SCOPED = [False]


def build(om, hist):
    app = om.Ombott()
    if SCOPED[0] == 'reenter':
        def sub_request_hook(prefix):
            if not app.request.environ.get('c02.inner'):
                wsgi.call(app, wsgi.environ('GET', '/y', **{'c02.inner': True}))      # an internal sub-request, then on with the outer one
        app.on_route('/x', sub_request_hook)
    elif SCOPED[0]:
        @app.error(404, '/x')
        def scoped_404(route, params):
            app.response.status = 404
            return 'nothing under ' + route
    app.route('/y', 'GET', make_handler(app, 'Y'))
    log = []
    for op in hist:
        log.append(apply_real(app, op))
    return app, log


class _VerbStr(str):
    """a str subclass (verbs often come out of configuration objects or enumerations that ARE strings)"""


_verb_enums = {}


def verb_arg(v, op):
    """the verb as the application passes it: a plain str, a str subclass or a member of a str-mixin Enum - a function of the operation"""
    import enum
    import zlib
    k = zlib.crc32(repr((op, v)).encode()) % 3
    if k == 0:
        return v
    if k == 1:
        return _VerbStr(v)
    if v not in _verb_enums:
        _verb_enums[v] = enum.Enum('Verb', {'MEMBER': v}, type=str).MEMBER
    return _verb_enums[v]


def apply_real(app, op):
    kind, rule = op[0], op[1]
    try:
        if kind == 'req':
            probe(app, op[2], op[1])
            return 'ok'
        if kind == 'route':
            spec = list(op[2]) if isinstance(op[2], tuple) else op[2]
            h = make_handler(app, hid_of(op))
            if spec in ('POST', 'HEAD'):
                # the verb shortcuts (app.post(rule, handler) / the decorator form) are the same registration
                short = getattr(app, spec.lower())
                if op[3]:
                    short(rule, overwrite=True)(h)
                else:
                    short(rule, callback=h)     # (a positional callback collides with the bound method= of the shortcut: TypeError, not judged)
                return 'ok'
            spec = [verb_arg(v, op) for v in spec] if isinstance(spec, list) else verb_arg(spec, op)
            app.route(rule, spec, h, overwrite=op[3])
            return 'ok'
        route = app.router[{rule}]
        if route is None:
            return 'none'
        if kind == 'rm':
            route.remove_method(op[2])
            return 'ok'
        if kind == 'radd':
            route.add_method(op[2], make_handler(app, 'RA:' + op[2]))
            return 'ok'
        if kind == 'rset':
            route.set_method(op[2], make_handler(app, 'RS:' + op[2]))
            return 'ok'
        if kind == 'rml':
            route.remove_method(list(op[2]))
            return 'ok'
        try:
            rm = route[op[2]]
        except Exception:   # noqa  (method not registered on the route)
            return 'none'
        rm.remove()
        return 'ok'
    except Exception as e:   # noqa
        return 'raised:' + type(e).__name__


def real_key(app):
    out = []
    for rule in RULES + ['/y'] + EXTRA_RULES:
        route = app.router[{rule}]
        if route is None:
            continue
        out.append((rule, tuple(sorted((m, getattr(rm.handler, 'hid', '?')) for m, rm in route.methods.items()))))
    return tuple(sorted(out))


EXTRA_RULES = []


def probe(app, method, path, accept=None):
    c = wsgi.call(app, wsgi.environ(method, path, headers={'Accept': accept} if accept else None))
    if c.escaped is not None:
        return ('escaped', repr(c.escaped), None)
    return (c.code, c.header('X-H'), c.header('Allow'))


def judge_state(om, hist, app=None):
    """-> list of (class, text) problems of the state reached by hist (model vs real)."""
    if app is None:
        app, _ = build(om, hist)
    m = Model()
    for op in hist:
        m.apply(op)
    probs = []
    legs = []
    if real_key(app) != m.key():
        probs.append(('table', f'method tables {real_key(app)!r}, model {m.key()!r}'))
    for meth in REQ_METHODS:
        for path in PATHS + EXTRA_PATHS:
            exp = m.expect(meth, path)
            got = probe(app, meth, path)
            legs.append((exp[0], exp[3]))
            if got[0] != exp[0]:
                cls = 'status'
                if {got[0], exp[0]} == {404, 405}:
                    cls = '404-vs-405'
                probs.append((cls, f'{meth} {path}: status {got[0]} (handler {got[1]}, Allow {got[2]!r}); model: status {exp[0]} '
                                   f'handler {exp[1]} Allow {exp[2]!r}'))
            elif exp[0] == 200 and got[1] != exp[1]:
                probs.append(('handler', f'{meth} {path}: handled by {got[1]}, model says {exp[1]}'))
            elif exp[0] == 405 and got[2] != exp[2]:
                probs.append(('allow', f'{meth} {path}: Allow {got[2]!r}, model says {exp[2]!r}'))
            elif exp[0] == 405:
                # the same refusal asked for as JSON (an API client): same status, same Allow
                gj = probe(app, meth, path, 'application/json')
                if gj[0] != 405 or gj[2] != exp[2]:
                    probs.append(('allow-json', f'{meth} {path} with Accept: application/json: status {gj[0]} Allow {gj[2]!r}; model: 405 Allow {exp[2]!r}'))
    return probs, legs, m


EXTRA_PATHS = []


def work(spec):
    SCOPED[0] = {'scoped': True, 'reenter': 'reenter'}.get(spec[0], False)
    try:
        return _work(spec)
    finally:
        SCOPED[0] = False


def _work(spec):
    kind, a, depth = spec
    res = core.new_result()
    om = sut.load()
    c = res['counters']
    if kind == 'paths':
        work_paths(res, om, a, depth)
        res['execs'] = res['transitions']
        core.add_sample(res, {'path_tokens': PATH_TOKENS, 'first_token': a, 'max_tokens': depth})
        return res
    m = menu()
    if kind == 'extra':
        extra = [[('route', '/w', 'GET', False), ('route', '/w', 'PUT', False), ('rm', '/w', 'GET')],
                 [('route', '/x', 'PUT', False), ('route', '/x', 'put', True), ('rm', '/x', 'PUT')],
                 [('route', '/x/{p}/z', 'ANY', False), ('route', '/x/{p}/z', 'HEAD', False), ('rm', '/x/{p}/z', 'ANY')]][a]
        m = m[:14] + extra
        first = extra
    elif kind in ('scoped', 'reenter'):
        first = m[a:a + 4]
    elif kind == 'overlap':
        m = overlap_menu()
        first = [m[a]]
    else:
        first = [m[a]]

    def on_state(hist, obj):
        app, log = obj
        probs, legs, model = judge_state(om, hist, app)
        for code, leg in legs:
            res['outcomes'].add(f'probe -> {code} {leg or ""}'.strip())
            c['probes'] += 1
            if leg:
                c[leg] += 1
            if code in (404, 405):
                c['r%d' % code] += 1
        tabs = [t for r, t in model.t.items() if r != '/y']
        if any(len(t) >= 2 for t in tabs) or any(len(t) == 0 for t in tabs):
            res['nontrivial'] += 1
        if any(len(t) == 0 for t in tabs):
            c['emptied_route_states'] += 1
        res['outcomes'].add('state ok' if not probs else 'state ' + probs[0][0])
        for cls, text in probs[:3]:
            core.add_violation(res, {'kind': 'state', 'hist': [list(o) for o in hist], 'scoped': SCOPED[0]}, f'after {list(hist)!r}: {text}', sig=cls)
        return not probs

    def on_transition(hist, op, kb, ka, obj):
        app, log = obj
        mm = Model()
        for o in hist:
            mm.apply(o)
        acc = mm.apply(op)
        out = log[-1]
        if acc is False:
            c['rejected_registrations'] += 1
            # (what must not change is what a user can observe: the method tables - not the concrete object graph)
            if not out.startswith('raised') or ka[0] != kb[0]:
                core.add_violation(res, {'kind': 'transition', 'hist': [list(o) for o in hist + (op,)], 'scoped': SCOPED[0]},
                                   f'after {list(hist)!r} the duplicate registration {op!r} must be rejected and change nothing; '
                                   f'outcome {out}, state changed: {ka[0] != kb[0]}', sig='reject')
        elif acc is True and out.startswith('raised'):
            core.add_violation(res, {'kind': 'transition', 'hist': [list(o) for o in hist + (op,)], 'scoped': SCOPED[0]},
                               f'after {list(hist)!r} the operation {op!r} raised {out}', sig='spurious-reject')

    if kind == 'extra':
        EXTRA_RULES[:] = sorted({o[1] for o in extra} - set(RULES))
        EXTRA_PATHS[:] = [r.replace('{p}', '7') for r in EXTRA_RULES]
    if kind == 'overlap':
        EXTRA_RULES[:] = ['/x/new']
        EXTRA_PATHS[:] = ['/x/new']
    # states are deduplicated by the method tables AND the concrete router object graph (hidden dispatch state counts)
    def build_k(h):
        b = Built(build(om, h))
        mm = Model()
        for o in h:
            mm.apply(o)
        b.mkey = mm.key()
        return b
    # ... and by the reference model's state: histories are merged only when real AND expected states agree
    s = Search(build_k, m, lambda obj: (real_key(obj[0]), _canon(obj[0].router), obj.mkey))
    s.run(depth, on_state, on_transition, first_ops=first)
    if kind in ('extra', 'overlap'):
        EXTRA_RULES[:] = []
        EXTRA_PATHS[:] = []
    res['states'] = s.states
    res['transitions'] = s.transitions
    res['execs'] = s.transitions + c['probes']
    longest = max(s.seen.values(), key=len) if s.seen else ()
    core.add_sample(res, {'first_op': [list(o) if isinstance(o, tuple) else o for o in first][:3], 'depth': depth, 'states': s.states,
                          'new_states_per_level': s.levels, 'example_history_reaching_a_new_state': core.jsonable(list(longest))})
    return res


def _norm(op):
    return tuple(tuple(x) if isinstance(x, list) else x for x in op)


def replay(case):
    SCOPED[0] = case.get('scoped') or False
    try:
        r = _replay(case)
    finally:
        SCOPED[0] = False
    if r and case.get('scoped') == 'reenter':
        r = "application whose route hook on '/x' first lets the application itself serve GET /y: " + r
    elif r and case.get('scoped'):
        r = "application with a scoped 404 handler (app.error(404, '/x')): " + r
    return r


def _replay(case):
    om = sut.load()
    hist = tuple(_norm(o) for o in case.get('hist', []))
    extra_rules = sorted({o[1] for o in hist if o[1] not in RULES})
    EXTRA_RULES[:] = extra_rules
    EXTRA_PATHS[:] = [r.replace('{p}', '7') for r in extra_rules]
    try:
        if case['kind'] == 'path':
            app = om.Ombott()
            for rule, meth in (('/x', 'GET'), ('/x/{p}', 'GET'), ('/y', 'POST')):
                app.route(rule, meth, make_handler(app, 'H' + rule))
            m = Model()
            m.t = {'/x': {'GET': 'H/x'}, '/x/{p}': {'GET': 'H/x/{p}'}, '/y': {'POST': 'H/y'}}
            exp = m.expect(case['method'], case['path'])
            got = probe(app, case['method'], case['path'])
            if got[0] == exp[0] and (exp[0] != 200 or got[1] == exp[1]) and (exp[0] != 405 or got[2] == exp[2]):
                return None
            return (f'routes GET /x, GET /x/{{p}}, POST /y: {case["method"]} {case["path"]!r} is answered {got[0]} (handler {got[1]}, Allow {got[2]!r}); '
                    f'by the route table it must be {exp[0]} (handler {exp[1]}, Allow {exp[2]!r})')
        if case['kind'] == 'state':
            probs, _, _ = judge_state(om, hist)
            if not probs:
                return None
            return f'after the operations {list(hist)!r}: ' + '; '.join(t for _, t in probs[:3])
        app, log = build(om, hist[:-1])
        kb = real_key(app)
        out = apply_real(app, hist[-1])
        ka = real_key(app)
        mm = Model()
        for o in hist[:-1]:
            mm.apply(o)
        acc = mm.apply(hist[-1])
        if acc is False and (not out.startswith('raised') or ka != kb):
            return (f'after {list(hist[:-1])!r} the duplicate registration {hist[-1]!r} must be rejected and change nothing; '
                    f'outcome {out}, tables before {kb!r} after {ka!r}')
        if acc is True and out.startswith('raised'):
            return f'after {list(hist[:-1])!r} the operation {hist[-1]!r} raised {out}'
        return None
    finally:
        EXTRA_RULES[:] = []
        EXTRA_PATHS[:] = []

MANIFEST['text'] += ' Extension methods (M-SEARCH), the per-route add_method / set_method interface with a single name, and a literal rule below a wildcard rule (overlap shard) are part of the menu (54 operations + 12 in the overlap shard).'
