"""C01 — route resolution equals the plain rule-by-rule semantics.

Engine: E-ENUM over rule sets x insertion orders x paths against an independent rule-by-rule matcher
(vf/refrouter.py).  Rule ASTs (literal, plain / int / float / re / path wildcards, glued and separated, anonymous)
form a universe built to share and split prefixes; every subset of size <= 3 is registered in EVERY insertion order
(the radix-tree shape depends on it) in a fresh RadiRouter; every path from the generators (each rule instantiated
with adversarial wildcard values incl. '', non-ASCII and U+000D, literal perturbations, slash variants, and all
strings over {a, b, 1, /, U+000D} up to length 4) is resolved.
Oracle: the handler selected and its parameter dict (names, converted values, types) equal the reference; 404 iff the
reference matches no rule.  Further layers: every syntax flavour of every AST gives the same answers; one pattern
registered under two methods with different parameter names; the same through Ombott.__call__ (handler kwargs).
"""
import itertools

from vf import core, sut, wsgi
from vf import refrouter as rr
from vf.refrouter import L, W

ID = 'C01'
TITLE = 'Route resolution equals the plain rule-by-rule semantics'
ENGINE = 'E-ENUM (rule sets x insertion orders x paths against an independent rule-by-rule matcher)'
RULE = ('states = distinct routers built (rule set x insertion order x flavour); transitions = path resolutions compared '
        'with the reference; non-trivial = resolutions where >=2 rules match, where the matcher must backtrack out of a '
        'literal branch, or that end in 404 after a partial match')
ASSUMPTIONS = [
    'resolve() ignores leading/trailing slashes of the path (documented); rules are written without a trailing slash',
    'a wildcard is attempted only while path characters remain; an unfiltered wildcard takes the text up to the next "/" '
    '(possibly empty between separators); a filter is one regex match at the cursor, no retry with a shorter match',
    'rule sets in which a registration is rejected are observed and excluded here (their side effects are C11\'s)',
    'the rex selector feature is outside the quantifier and not enumerated',
]
MANIFEST = {
    'engines': ['E-ENUM'],
    'technique': 'bounded-exhaustive enumeration of rule sets (<=3 rules from a prefix-sharing universe) in every insertion '
                 'order x generated paths on the real RadiRouter / Ombott.__call__, compared with an independent matcher',
    'text': 'Every 1-, 2- and 3-rule subset of the rule universe (plain, int, float, re, path and rex selector filters; 3-sets over the 26-rule core in the quick tier, over the '
            'whole universe in the thorough tier) is registered in every insertion order; every generated path is resolved '
            'and the selected handler and parameter dict are compared with the reference; all syntax flavours must agree.',
    'note': 'Bounds: <=3 rules per router, universe of ~55 ASTs, paths from the stated generators. Trusted: CPython re, '
            'the reference matcher vf/refrouter.py.',
}

WP = W('x'), W('x', 'int'), W('x', 'float'), W('x', 're', 'a+'), W('x', 're', r'\d'), W('p', 'path'), W(None, 're', 'a+')

WILD_NAMES = ['anon_0', 'anon_id', 'anon', 'anon0', '_', '_x', 'x1', 'X', 'id', 'self', 'cls', 'path', 'int']


def universe():
    u = []
    for t in ('a', 'b', 'ab', 'a-'):
        u.append((L(t),))
    for w in WP:
        u.append((w,))
    u += [(L('a/b'),), (L('a/ab'),), (L('ab/a'),)]
    for w in WP:
        u.append((L('a/'), w))
    for w in WP:
        u.append((w, L('/a')))
    for w in (WP[0], WP[1], WP[3], WP[6]):
        u.append((L('a'), w))
    u += [(W('x', 're', 'a+'), L('b')), (W('x', 'int'), L('b')), (W('p', 'path'), L('end'))]
    for w in WP:
        u.append((L('a/'), w, L('/b')))
    u += [(L('a/'), W('x'), L('/'), W('y')), (L('a/'), W('x', 'int'), L('/'), W('y')), (L('a/'), W('x'), L('/'), W('y', 'int')),
          (W('x'), L('/a/'), W('y')), (L('a/'), W('p', 'path'), L('/end')), (L('a/'), W('p', 'path'), L('end')), ()]
    # a path wildcard whose look-ahead literal is followed by another wildcard; filters whose regex looks at its surroundings
    # (anchor, word boundary, look-behind): a filter sees only the text from the cursor on
    u += [(L('a/'), W('p', 'path'), L('/by/'), W('x')), (L('a/'), W('x', 're', r'^\d+')), (L('a'), W('x', 're', r'\b\d+')),
          (L('a'), W('x', 're', r'(?<=a)\d+')), (L('a/'), W('x', 're', r'(?<!/)\d+')),
          # a second continuation after a filtered wildcard that starts with another character than '/'
          (L('a/'), W('x', 'int'), L('-v'))]
    # filters that also accept the empty text (the wildcard then takes nothing)
    u += [(L('v/'), W('x', 're', r'\d*'), L('s')), (L('v/'), W('x', 're', 'p?'), L('/y')), (L('f/'), W('d', 're', r'(?:[a-z]+/)*'), L('i'))]
    # selector filters: one wildcard position shared by several rules, told apart by which group of the regex took part
    rx3 = '(img)|(doc)|(raw)'
    u += [(L('m/'), W('k', 'rex', (rx3, 1)), L('/'), W('n')), (L('m/'), W('k', 'rex', (rx3, 2)), L('/'), W('n')),
          (L('m/'), W('k', 'rex', (rx3, 3))), (L('m/'), W(None, 'rex', (rx3, 2)), L('doc/x')),
          (L('t/'), W('v', 'rex', ('[a-z]+-[0-9]+', None))), (L('m/'), W('k', 'rex', (rx3, 1)), L('-'), W('n', 'int'))]
    # a number followed by a literal that begins with a dot; two numbers around dots
    u += [(L('p/'), W('v', 'float'), L('.json')), (L('r/'), W('a', 'float'), L('..'), W('b', 'float')), (L('p/'), W('v', 'int'), L('.json'))]
    return u


CORE_IDX = None


def core_rules(u):
    """26-rule core: the rules most likely to share / split prefixes."""
    want = [(L('a'),), (L('ab'),), (L('a-'),), (W('x'),), (L('a/b'),), (L('a/ab'),), (L('a/'), W('x')), (L('a/'), W('x', 'int')),
            (L('a/'), W('x', 're', 'a+')), (L('a/'), W('p', 'path')), (W('x'), L('/a')), (L('a'), W('x')), (L('a'), W('x', 'int')),
            (W('x', 're', 'a+'), L('b')), (L('a/'), W('x'), L('/b')), (L('a/'), W('x', 'int'), L('/b')),
            (L('a/'), W('x'), L('/'), W('y')), (W('x'), L('/a/'), W('y')), (L('a/'), W('p', 'path'), L('end')), (),
            (L('a/'), W('p', 'path'), L('/by/'), W('x')), (L('a'), W('x', 're', r'\b\d+')), (L('a/'), W('x', 'int'), L('-v')),
            (L('m/'), W('k', 'rex', ('(img)|(doc)|(raw)', 1)), L('/'), W('n')), (L('m/'), W('k', 'rex', ('(img)|(doc)|(raw)', 2)), L('/'), W('n')),
            (L('m/'), W(None, 'rex', ('(img)|(doc)|(raw)', 2)), L('doc/x'))]
    return [u.index(r) for r in want]


def short_strings(n):
    out = []
    for m in range(0, n + 1):
        for t in itertools.product('ab1/\r', repeat=m):
            out.append(''.join(t))
    return out


def paths_for(rules, nstr):
    ps = set()
    for r in rules:
        inst = rr.instantiate(r)
        ps.update(inst)
        for p in inst[:4]:
            ps.update(rr.perturb(p))
    ps.update(short_strings(nstr))
    return sorted(ps)


def shards(tier, seed):
    u = universe()
    out = [('flavours', None, None), ('single', None, None), ('names', None, None), ('hooknames', None, None), ('samemask', None, None)]
    cidx0 = core_rules(universe())
    for i in cidx0:
        out.append(('removed', i, None))
    for ri in range(len(SEQ_ROUTERS)):
        out.append(('lookupseq', ri, None))
    for i in range(len(u)):
        out.append(('pairs', i, None))
    cidx = core_rules(u)
    if tier == 'quick':
        for i in cidx:
            out.append(('triples', i, 'core'))
    else:
        for i in range(len(u)):
            out.append(('triples', i, 'all'))
    for i in range(0, len(u), 4):
        out.append(('wsgi', i, None))
    # seed extension: one more atom joins the universe; all pairs containing a rule built from it
    out.append(('extra', seed % 4, None))
    return out


def bounds(tier, seed):
    u = universe()
    return {'universe': len(u), 'rules': [rr.default_text(r) for r in u], 'max_rules_per_router': 3,
            'triples_over': '26-rule core' if tier == 'quick' else 'whole universe', 'insertion_orders': 'all',
            'path_generators': 'instantiation with ' + repr(rr.WILD_VALUES) + ', perturbations, all strings over {a,b,1,/,CR} <= 4 (3 for triples)'}


FLOORS = {'lookup_sequences': 1000, 'hooknames_calls': 100, 'multi_match': 1000, 'not_found': 1000, 'matched': 1000, 'routers': 1000, 'flavour_texts': 100, 'wsgi_calls': 500,
          'rejected_sets': 1}


def _router_mod():
    sut.load()
    return sut.sub('router.radirouter')


def build(rmod, rules, texts=None):
    """Fresh router with the rules registered in the given order.  Returns (router, handlers, error|None)."""
    router = rmod.RadiRouter()
    handlers = []
    for i, r in enumerate(rules):
        def h(**kw):
            return kw
        h.idx = i
        handlers.append(h)
        try:
            router.add(texts[i] if texts else rr.default_text(r), 'GET', h)
        except Exception as e:   # noqa
            return router, handlers, f'{type(e).__name__}'
    return router, handlers, None


def observe(router, path):
    """-> None (404) | (handler index, params dict) | ('405',) | ('EXC', text)"""
    try:
        end_point, err = router.resolve(path, ['GET'])
    except Exception as e:   # noqa
        return ('EXC', f'{type(e).__name__}: {e}')
    if end_point is None:
        return None if err[0] == 404 else ('405',)
    meth, params, hooks = end_point
    return (getattr(meth.handler, 'idx', '?'), params)


def expect(rules, path):
    r = rr.resolve(rules, path)
    if r is None:
        return None
    return (r[0], r[1])


def same(a, b):
    if a is None or b is None:
        return a is b
    if a[0] != b[0] or len(a) != len(b):
        return False
    if len(a) == 1:
        return True
    pa, pb = a[1], b[1]
    if not isinstance(pa, dict) or not isinstance(pb, dict):
        return pa == pb
    return pa == pb and all(type(pa[k]) is type(pb[k]) for k in pa)


def sig_for(path, got, exp):
    if '\r' in path:
        return 'cr-in-path'
    if got is None:
        return 'false-404'
    if exp is None:
        return 'false-match'
    if got[0] != exp[0]:
        return 'wrong-route'
    return 'wrong-params'


def check_set(res, rmod, u, idxs, nstr, orders=True):
    rules_sorted = [u[i] for i in idxs]
    paths = paths_for(rules_sorted, nstr)
    ref = {}
    c = res['counters']
    for p in paths:
        path = p.strip('/')
        m = [j for j, r in enumerate(rules_sorted) if rr.match(r, path) is not None]
        ref[p] = (expect(rules_sorted, p), len(m))
    perms = itertools.permutations(range(len(idxs))) if orders else [tuple(range(len(idxs)))]
    for perm in perms:
        rules = [rules_sorted[j] for j in perm]
        router, handlers, err = build(rmod, rules)
        res['states'] += 1
        c['routers'] += 1
        if err:
            c['rejected_sets'] += 1
            res['outcomes'].add(f'registration rejected: {err}')
            continue
        for p in paths:
            exp, nm = ref[p]
            if exp is not None:
                exp = (perm.index(exp[0]), exp[1])
            got = observe(router, p)
            res['transitions'] += 1
            if nm >= 2:
                c['multi_match'] += 1
                res['nontrivial'] += 1
            if exp is None:
                c['not_found'] += 1
            else:
                c['matched'] += 1
            res['outcomes'].add(f'{len(idxs)} rules, {nm} match -> {"404" if exp is None else "params " + ",".join(sorted(exp[1]))}')
            if not same(got, exp):
                case = {'kind': 'set', 'rules': [rr.default_text(r) for r in rules], 'ast': [list(map(list, r)) for r in rules], 'path': p}
                core.add_violation(res, case, f'rules {case["rules"]} path {p!r}: router {got!r}, reference {exp!r}',
                                   sig=sig_for(p, got, exp))


# ---- one router answering lookups one after the other (some of them fail inside a filter) --------------------------------------
HUGE = '7' * 4400          # more digits than int() converts: the int filter's conversion raises while the tree is being walked
SEQ_ROUTERS = [
    [(L('hello/'), W('name')), (L('n/'), W('x', 'int'))],
    [(L('n/'), W('x', 'int'), L('/t')), (L('m/'), W('y', 're', r'\d+'), L('/u')), (W('p', 'path'),)],
    [(W('a'), L('/'), W('b', 'int')), (L('hello/world'),)],
]
SEQ_PATHS = ['hello/world', 'n/' + HUGE, 'n/12', 'n/' + HUGE + '/t', 'm/' + HUGE + '/u', 'hello/' + HUGE, 'n/x', 'zzz']


def expect_or_raise(rules, path):
    try:
        return expect(rules, path)
    except ValueError:
        return 'RAISES'


def seq_problem(rmod, rules, seq):
    """the lookups of `seq` on one router, in this order -> None | (index, text)"""
    router, handlers, err = build(rmod, rules)
    if err:
        return (0, f'rules rejected: {err}')
    for i, path in enumerate(seq):
        exp = expect_or_raise(rules, path)
        got = observe(router, path)
        if exp == 'RAISES':
            # the conversion of a matching filter cannot be done: an exception or "not found" - never another route's answer
            if got is None or got[0] == 'EXC':
                continue
            return (i, f'lookup #{i + 1} resolve({short(path)!r}) gives {short_obs(got)!r} although the only matching rule cannot convert the value')
        if not same(got, exp):
            return (i, f'lookup #{i + 1} resolve({short(path)!r}) gives {short_obs(got)!r}; the reference gives {short_obs(exp)!r}')
    return None


def short(path):
    return path.replace(HUGE, '<4400 digits>')


def short_obs(o):
    return eval(repr(o).replace(HUGE, '<4400 digits>')) if o is not None else None


def work_lookupseq(res, rmod, ri):
    rules = SEQ_ROUTERS[ri]
    c = res['counters']
    for seq in itertools.product(range(len(SEQ_PATHS)), repeat=3):
        paths = [SEQ_PATHS[i] for i in seq]
        res['states'] += 1
        res['transitions'] += 3
        c['lookup_sequences'] += 1
        if any(HUGE in p for p in paths):
            res['nontrivial'] += 1
        pr = seq_problem(rmod, rules, paths)
        res['outcomes'].add('lookup sequence ' + ('ok' if pr is None else 'DIFF'))
        if pr is not None:
            core.add_violation(res, {'kind': 'lookupseq', 'router': ri, 'seq': list(seq)},
                               f'one router with the rules {[rr.default_text(r) for r in rules]} answers the lookups {[short(p) for p in paths]} in this order: {pr[1]}',
                               sig='lookup-sequence')
    core.add_sample(res, {'lookup_sequences_on_one_router': [rr.default_text(r) for r in rules], 'paths': [short(p) for p in SEQ_PATHS], 'length': 3})


def work(spec):
    kind, a, b = spec
    res = core.new_result()
    rmod = _router_mod()
    u = universe()
    c = res['counters']
    if kind == 'lookupseq':
        work_lookupseq(res, rmod, a)
        res['execs'] = res['transitions']
        return res
    if kind == 'single':
        for i in range(len(u)):
            check_set(res, rmod, u, [i], 4)
        core.add_sample(res, {'single_rule_routers': len(u), 'example_rule': rr.default_text(u[30]), 'example_paths': paths_for([u[30]], 1)[:8]})
    elif kind == 'pairs':
        for j in range(len(u)):
            if j > a:
                check_set(res, rmod, u, [a, j], 4)
        core.add_sample(res, {'first_rule': rr.default_text(u[a]), 'pairs_with': len(u) - a - 1})
    elif kind == 'triples':
        pool = core_rules(u) if b == 'core' else list(range(len(u)))
        rest = [j for j in pool if j > a] if b == 'all' else [j for j in pool if pool.index(j) > pool.index(a)]
        for j, k in itertools.combinations(rest, 2):
            check_set(res, rmod, u, [a, j, k], 3)
        core.add_sample(res, {'first_rule': rr.default_text(u[a]), 'triples': len(rest) * (len(rest) - 1) // 2, 'orders_each': 6})
    elif kind == 'removed':
        # the registered set after a removal: three rules registered, one removed again, survivors must resolve as a plain set
        pool = core_rules(u)
        rest = [j for j in pool if pool.index(j) > pool.index(a)]
        for j, k in itertools.combinations(rest, 2):
            trio = [a, j, k]
            for gone in range(3):
                for perm in itertools.permutations(range(3)):
                    rules = [u[trio[x]] for x in perm]
                    router, handlers, err = build(rmod, rules)
                    res['states'] += 1
                    if err:
                        c['rejected_sets'] += 1
                        continue
                    try:
                        router.remove(rr.default_text(u[trio[gone]]))
                    except Exception as e:   # noqa
                        core.add_violation(res, {'kind': 'removed', 'ast': [list(map(list, r)) for r in rules], 'gone': perm.index(gone), 'path': None},
                                           f'remove({rr.default_text(u[trio[gone]])!r}) raised {type(e).__name__}', sig='remove-raised')
                        continue
                    c['routers'] += 1
                    surv = [r for x, r in zip(perm, rules) if x != gone]
                    for p in paths_for([u[t] for t in trio], 2):
                        exp = expect(surv, p)
                        got = observe(router, p)
                        if got is not None and len(got) == 2 and isinstance(got[0], int):
                            # handler indices refer to the registration order of all three rules
                            got = (surv.index(rules[got[0]]) if rules[got[0]] in surv else 'removed-rule', got[1])
                        res['transitions'] += 1
                        if not same(got, exp):
                            core.add_violation(res, {'kind': 'removed', 'ast': [list(map(list, r)) for r in rules], 'gone': perm.index(gone), 'path': p},
                                               f'rules {[rr.default_text(r) for r in rules]} minus #{perm.index(gone)}: path {p!r}: router {got!r}, reference {exp!r}',
                                               sig='after-removal:' + sig_for(p, got, exp))
            # removal by prefix (`remove('/a/x*')`): exactly the rules whose pattern starts with the prefix go, the others
            # - in particular all of them when nothing starts with it - resolve as before
            for pfx in ('a/x', 'ax', 'b/', 'a/a', 'a/b', 'a', 'a/ab/', 'm/\r2'):
                for perm in ((0, 1, 2), (2, 1, 0)):
                    rules = [u[trio[x]] for x in perm]
                    router, handlers, err = build(rmod, rules)
                    res['states'] += 1
                    if err:
                        continue
                    text = '/' + pfx.replace('\r2', '{k:rex((img)|(doc)|(raw))[2]}') + '*'
                    try:
                        router.remove(text)
                    except Exception as e:   # noqa
                        core.add_violation(res, {'kind': 'removed', 'ast': [list(map(list, r)) for r in rules], 'gone': text, 'path': None},
                                           f'remove({text!r}) raised {type(e).__name__}', sig='remove-raised')
                        continue
                    c['routers'] += 1
                    c['prefix_removals'] += 1
                    surv = [r for r in rules if not rr.pattern(r).startswith(pfx)]
                    for p in paths_for([u[t] for t in trio], 2):
                        exp = expect(surv, p)
                        got = observe(router, p)
                        if got is not None and len(got) == 2 and isinstance(got[0], int):
                            got = (surv.index(rules[got[0]]) if rules[got[0]] in surv else 'removed-rule', got[1])
                        res['transitions'] += 1
                        if not same(got, exp):
                            core.add_violation(res, {'kind': 'removed', 'ast': [list(map(list, r)) for r in rules], 'gone': text, 'path': p},
                                               f'rules {[rr.default_text(r) for r in rules]} after remove({text!r}): path {p!r}: router {got!r}, reference {exp!r}',
                                               sig='after-prefix-removal:' + sig_for(p, got, exp))
        core.add_sample(res, {'first_rule': rr.default_text(u[a]), 'registered_then_one_removed': True})
    elif kind == 'samemask':
        # filters are built once per process: rules whose filters share a regex text, registered in both orders
        pairs = [((L('i/'), W('n', 'int')), (L('r/'), W('n', 're', r'-?\d+'))),
                 ((L('f/'), W('n', 'float')), (L('r/'), W('n', 're', r'-?\d+(\.\d+)?'))),
                 ((L('i/'), W('n', 'int')), (L('f/'), W('n', 'float'))),
                 ((L('p/'), W('p', 'path')), (L('r/'), W('p', 're', '.+$')))]
        for pair in pairs:
            for order in (pair, pair[::-1]):
                sut.load(fresh=True)
                rmod2 = sut.sub('router.radirouter')
                router, handlers, err = build(rmod2, list(order))
                res['states'] += 1
                c['routers'] += 1
                if err:
                    continue
                ps = sorted(set(paths_for(list(order), 2)) | {x + '/' + v for x in ('i', 'r', 'f', 'p') for v in ('007', '-0', '1.10', '7', 'a/b', '1e5')})
                for p in ps:
                    exp = expect(list(order), p)
                    got = observe(router, p)
                    res['transitions'] += 1
                    if not same(got, exp):
                        core.add_violation(res, {'kind': 'samemask', 'ast': [list(map(list, r)) for r in order], 'path': p},
                                           f'fresh process, rules {[rr.default_text(r) for r in order]} in this order: path {p!r}: router {got!r}, reference {exp!r}',
                                           sig='same-mask-filters:' + sig_for(p, got, exp))
        sut.load(fresh=True)
        core.add_sample(res, {'same_mask_pairs': [[rr.default_text(r) for r in pr] for pr in pairs]})
    elif kind == 'flavours':
        # wildcard names of every shape an identifier can take (the router's own marker for nameless wildcards is
        # 'anon-<n>', which no rule text can spell), beside a nameless wildcard
        named = [(L('w/'), W(nm), L('/'), W(None, 'int')) for nm in WILD_NAMES] + [(L('w/'), W(nm, 'int')) for nm in WILD_NAMES[:4]]
        for r in u + named:
            texts = rr.renderings(r)
            paths = paths_for([r], 3)
            for fl, t in texts.items():
                c['flavour_texts'] += 1
                router, handlers, err = build(rmod, [r], [t])
                res['states'] += 1
                if err:
                    core.add_violation(res, {'kind': 'flavour', 'text': t, 'ast': [list(x) for x in r], 'path': None},
                                       f'rule text {t!r} (flavour {fl}) is rejected: {err}', sig='flavour-rejected')
                    continue
                for p in paths:
                    exp = expect([r], p)
                    got = observe(router, p)
                    res['transitions'] += 1
                    if not same(got, exp):
                        core.add_violation(res, {'kind': 'flavour', 'text': t, 'ast': [list(x) for x in r], 'path': p},
                                           f'rule text {t!r} path {p!r}: router {got!r}, reference {exp!r}',
                                           sig='flavour:' + sig_for(p, got, exp))
        core.add_sample(res, {'flavours_of': rr.default_text(u[25]), 'texts': list(rr.renderings(u[25]).values())})
    elif kind == 'names':
        # one pattern under two methods with different parameter names: each handler gets its own rule's names
        om = sut.load()
        for w1, w2 in ((W('a'), W('b')), (W('a', 'int'), W('b', 'int')), (W('a', 're', 'a+'), W('b', 're', 'a+'))):
            for pre in ('p/', 'p'):
                r1, r2 = (L(pre), w1), (L(pre), w2)
                app = om.Ombott()
                seen = {}

                def h1(**kw):
                    seen['v'] = ('GET', kw)
                    return 'g'

                def h2(**kw):
                    seen['v'] = ('POST', kw)
                    return 'p'
                try:
                    app.route(rr.default_text(r1), 'GET', h1)
                    app.route(rr.default_text(r2), 'POST', h2)
                except Exception as e:   # noqa
                    res['outcomes'].add(f'names: registration rejected {type(e).__name__}')
                    continue
                for val in ('a', 'aa', '1', '12'):
                    for method, rule in (('GET', r1), ('POST', r2)):
                        seen.clear()
                        path = '/' + pre + val
                        cl = wsgi.call(app, wsgi.environ(method, path))
                        res['states'] += 1
                        res['transitions'] += 1
                        m = rr.match(rule, path.strip('/'))
                        exp = (method, dict(m)) if m is not None else None
                        got = seen.get('v')
                        if (exp is None) != (got is None) or (exp and got != exp):
                            core.add_violation(res, {'kind': 'names', 'rules': [rr.default_text(r1), rr.default_text(r2)],
                                                     'method': method, 'path': path},
                                               f'GET {rr.default_text(r1)} + POST {rr.default_text(r2)}: {method} {path} called '
                                               f'{got!r} (status {cl.status}), expected {exp!r}', sig='same-pattern-names')
        core.add_sample(res, {'same_pattern_two_methods': ['/p/{a} GET', '/p/{b} POST']})
    elif kind == 'hooknames':
        # a route hook on the very pattern of a route, written with other (or no) wildcard names, installed before or after
        # the route: the handler still gets the names of the rule it was registered under
        om = sut.load()
        for w1, w2 in ((W('a'), W('b')), (W('a', 'int'), W('b', 'int')), (W('a', 'int'), W(None, 'int')), (W('a', 're', 'a+'), W('b', 're', 'a+')),
                       (W('a', 're', 'a+'), W(None, 're', 'a+'))):
            for tail in ((), (L('/x'),), (L('/'), W('c'))):
                for order in ('hook-first', 'route-first', 'hook-first-then-removed'):
                    r1, r2 = (L('p/'), w1) + tail, (L('p/'), w2) + tuple((W('d') if t[0] == 'W' else t) for t in tail)
                    app = om.Ombott()
                    seen = {}

                    def h1(**kw):
                        seen['v'] = kw
                        return 'g'
                    try:
                        if order.startswith('hook-first'):
                            app.on_route(rr.default_text(r2), lambda prefix: None)
                        app.route(rr.default_text(r1), 'GET', h1)
                        if order == 'route-first':
                            app.on_route(rr.default_text(r2), lambda prefix: None)
                        if order == 'hook-first-then-removed':
                            app.remove_route_hook(rr.default_text(r2))
                    except Exception as e:   # noqa
                        res['outcomes'].add(f'hooknames: registration rejected {type(e).__name__}')
                        continue
                    for val in ('a', 'aa', '1', '12'):
                        seen.clear()
                        path = '/p/' + val + ''.join(t[1] if t[0] == 'L' else 'zz' for t in tail)
                        cl = wsgi.call(app, wsgi.environ('GET', path))
                        res['states'] += 1
                        res['transitions'] += 1
                        c['hooknames_calls'] += 1
                        m = rr.match(r1, path.strip('/'))
                        exp = dict(m) if m is not None else None
                        got = seen.get('v')
                        if got != exp:
                            core.add_violation(res, {'kind': 'hooknames', 'rules': [rr.default_text(r1), rr.default_text(r2)], 'order': order, 'path': path},
                                               f'route {rr.default_text(r1)} and a route hook on {rr.default_text(r2)} ({order}): GET {path} called the handler with '
                                               f'{got!r} (status {cl.status}), expected {exp!r}', sig='hook-names')
        core.add_sample(res, {'route_and_hook_with_other_wildcard_names': ['/p/{a:int()}', '/p/{b:int()}', '/p/{:int()}']})
    elif kind == 'wsgi':
        om = sut.load()
        for i in range(a, min(a + 4, len(u))):
            for j in range(len(u)):
                if j == i:
                    continue
                rules = [u[i], u[j]]
                app = om.Ombott()
                seen = {}
                ok = True
                for n, r in enumerate(rules):
                    def h(_n=n, **kw):
                        seen['v'] = (_n, kw)
                        return 'x'
                    try:
                        app.route(rr.default_text(r), 'GET', h)
                    except Exception:   # noqa
                        ok = False
                        break
                if not ok:
                    continue
                res['states'] += 1
                for p in sorted(set(rr.instantiate(u[i]) + rr.instantiate(u[j])[:5])):
                    seen.clear()
                    raw = ('/' + p).encode('utf8').decode('latin1')
                    cl = wsgi.call(app, wsgi.environ('GET', raw))
                    res['transitions'] += 1
                    c['wsgi_calls'] += 1
                    exp = expect(rules, '/' + p)
                    got = seen.get('v')
                    bad = None
                    if exp is None:
                        if cl.code != 404 or got is not None:
                            bad = f'status {cl.status}, handler call {got!r}; reference says no rule matches'
                    elif got is None or not same(got, exp):
                        bad = f'handler call {got!r} (status {cl.status}), reference {exp!r}'
                    if bad:
                        core.add_violation(res, {'kind': 'wsgi', 'rules': [rr.default_text(r) for r in rules],
                                                 'ast': [list(map(list, r)) for r in rules], 'path': '/' + p},
                                           f'rules {[rr.default_text(r) for r in rules]} GET {"/" + p!r}: {bad}',
                                           sig='wsgi:' + sig_for(p, got, exp))
        core.add_sample(res, {'wsgi_first_rules': [rr.default_text(r) for r in u[a:a + 4]]})
    else:   # extra atom
        atom = [L('1'), W('x', 're', 'a|ab'), L('a/a'), W('x', 're', '[^/]+')][a]
        extra_rules = [(atom,), (L('a/'), atom), (atom, L('/a'))] if atom[0] == 'W' else [(atom,), (atom, L('/'), W('x')), (L('a/'), atom)]
        for er in extra_rules:
            uu = u + [er]
            for j in range(len(u)):
                check_set(res, rmod, uu, [j, len(u)], 3)
        core.add_sample(res, {'extra_atom': list(atom)})
    res['execs'] = res['transitions']
    return res


def _ast(a):
    return tuple(tuple(x) for x in a)


def replay(case):
    rmod = _router_mod()
    kind = case['kind']
    if kind == 'lookupseq':
        rules = SEQ_ROUTERS[case['router']]
        paths = [SEQ_PATHS[i] for i in case['seq']]
        pr = seq_problem(rmod, rules, paths)
        if pr is None:
            return None
        return f'one router with the rules {[rr.default_text(r) for r in rules]} answers the lookups {[short(p) for p in paths]} in this order: {pr[1]}'
    if kind == 'samemask':
        sut.load(fresh=True)
        rmod = sut.sub('router.radirouter')
        rules = [_ast(r) for r in case['ast']]
        router, handlers, err = build(rmod, rules)
        exp = expect(rules, case['path'])
        got = observe(router, case['path'])
        sut.load(fresh=True)
        if same(got, exp):
            return None
        return (f'in a fresh process the rules {[rr.default_text(r) for r in rules]} are registered in this order: resolve({case["path"]!r}) gives '
                f'{got!r}; the reference gives {exp!r}')
    if kind == 'removed':
        rules = [_ast(r) for r in case['ast']]
        router, handlers, err = build(rmod, rules)
        if isinstance(case['gone'], str):
            router.remove(case['gone'])
            pfx = case['gone'][1:-1].replace('{k:rex((img)|(doc)|(raw))[2]}', '\r2')
            surv = [r for r in rules if not rr.pattern(r).startswith(pfx)]
            exp = expect(surv, case['path'])
            got = observe(router, case['path'])
            if got is not None and len(got) == 2 and isinstance(got[0], int):
                got = (surv.index(rules[got[0]]) if rules[got[0]] in surv else 'removed-rule', got[1])
            if same(got, exp):
                return None
            return (f'rules {[rr.default_text(r) for r in rules]} registered, then remove({case["gone"]!r}) (a prefix removal: {len(rules) - len(surv)} of the rules '
                    f'start with it): resolve({case["path"]!r}) gives {got!r}; the rules that do not start with the prefix give {exp!r}')
        router.remove(rr.default_text(rules[case['gone']]))
        surv = [r for i, r in enumerate(rules) if i != case['gone']]
        exp = expect(surv, case['path'])
        got = observe(router, case['path'])
        if got is not None and len(got) == 2 and isinstance(got[0], int):
            got = (surv.index(rules[got[0]]) if rules[got[0]] in surv else 'removed-rule', got[1])
        if same(got, exp):
            return None
        return (f'rules {[rr.default_text(r) for r in rules]} registered, then {rr.default_text(rules[case["gone"]])!r} removed: resolve({case["path"]!r}) '
                f'gives {got!r}; the survivors alone give {exp!r}')
    if kind in ('set', 'flavour'):
        if kind == 'set':
            rules = [_ast(r) for r in case['ast']]
            router, handlers, err = build(rmod, rules)
            label = f'rules {case["rules"]} registered in this order'
        else:
            rules = [_ast(case['ast'])]
            router, handlers, err = build(rmod, rules, [case['text']])
            label = f'rule text {case["text"]!r}'
            if err:
                return f'{label} is rejected: {err}'
        if err:
            return None
        exp = expect(rules, case['path'])
        got = observe(router, case['path'])
        if same(got, exp):
            return None
        return f'{label}: resolve({case["path"]!r}) gives {got!r}; the rule-by-rule reference gives {exp!r} (handler index, params)'
    om = sut.load()
    if kind == 'wsgi':
        rules = [_ast(r) for r in case['ast']]
        app = om.Ombott()
        seen = {}
        for n, r in enumerate(rules):
            def h(_n=n, **kw):
                seen['v'] = (_n, kw)
                return 'x'
            app.route(rr.default_text(r), 'GET', h)
        raw = case['path'].encode('utf8').decode('latin1')
        cl = wsgi.call(app, wsgi.environ('GET', raw))
        exp = expect(rules, case['path'])
        got = seen.get('v')
        if (exp is None and cl.code == 404 and got is None) or (exp is not None and got is not None and same(got, exp)):
            return None
        return (f'rules {case["rules"]}: GET {case["path"]!r} -> status {cl.status}, handler call {got!r}; '
                f'reference {exp!r} (handler index, kwargs)')
    if kind == 'hooknames':
        app = om.Ombott()
        seen = {}

        def hh(**kw):
            seen['v'] = kw
            return 'g'
        r1t, r2t = case['rules']
        if case['order'].startswith('hook-first'):
            app.on_route(r2t, lambda prefix: None)
        app.route(r1t, 'GET', hh)
        if case['order'] == 'route-first':
            app.on_route(r2t, lambda prefix: None)
        if case['order'] == 'hook-first-then-removed':
            app.remove_route_hook(r2t)
        cl = wsgi.call(app, wsgi.environ('GET', case['path']))
        got = seen.get('v')
        # the reference: match the rule text's own AST is not stored; names are the lower-case wildcard names of the route rule
        import re as _re
        names = set(_re.findall(r'\{([a-z]+)[:}]', r1t))
        if got is not None and set(got) == names:
            return None
        return (f'route {r1t} with a route hook on {r2t} ({case["order"]}): GET {case["path"]} called the handler with {got!r} (status {cl.status}); '
                f'the wildcards of its rule are named {sorted(names)!r}')
    # names
    app = om.Ombott()
    seen = {}

    def h1(**kw):
        seen['v'] = ('GET', kw)
        return 'g'

    def h2(**kw):
        seen['v'] = ('POST', kw)
        return 'p'
    app.route(case['rules'][0], 'GET', h1)
    app.route(case['rules'][1], 'POST', h2)
    cl = wsgi.call(app, wsgi.environ(case['method'], case['path']))
    got = seen.get('v')
    name = 'a' if case['method'] == 'GET' else 'b'
    if got is None or set(got[1]) == {name}:
        return None
    return (f'GET {case["rules"][0]} and POST {case["rules"][1]} share one pattern: {case["method"]} {case["path"]} called the '
            f'handler with {got[1]!r}; it was registered under a rule whose wildcard is named {name!r}')

MANIFEST['text'] += " Wildcard names of every identifier shape, numeric edge texts ('5.', '.5') and rules whose literal begins with a dot are part of the universe; registered-then-removed rule sets and route hooks on a route's own pattern are layers of their own."
MANIFEST['text'] += ' One router also answers all sequences of 3 lookups from a menu that includes values no int conversion can take (a lookup that raises must not colour the next one).'
