#!/venv/bin/python
"""tools/seed_add.py <name> <property> <srcdir> [check ids...] [--tier quick|thorough] [--needs "text"]

Confirms a seeded property-breaking change (patch.diff + demo.py [+ notes.md] in <srcdir>) on a scratch copy of
/repo under /tmp (removed afterwards): demo passes unpatched; patch applies; the repository test suite still passes;
demo fails patched.  Then runs the named checks against the patched scratch copy (OMBOTT_SRC) and stores everything
in /verif/seeded/<name>/ (patch.diff, demo.py, notes.md, meta.json).
"""
import json
import os
import shutil
import subprocess
import sys
import tempfile

ROOT = os.path.dirname(os.path.dirname(os.path.abspath(__file__)))


def sh(cmd, cwd=None, env=None, timeout=3600):
    e = dict(os.environ)
    e.update(env or {})
    p = subprocess.run(cmd, shell=True, cwd=cwd, env=e, capture_output=True, text=True, timeout=timeout)
    return p.returncode, (p.stdout + p.stderr)


def main():
    args = sys.argv[1:]
    tier = 'quick'
    needs = None
    if '--tier' in args:
        i = args.index('--tier')
        tier = args[i + 1]
        del args[i:i + 2]
    if '--needs' in args:
        i = args.index('--needs')
        needs = args[i + 1]
        del args[i:i + 2]
    name, prop, src = args[:3]
    checks = args[3:] or [prop]
    d = tempfile.mkdtemp(prefix='seed.', dir='/tmp')
    try:
        for x in ('ombott', 'tests', 'setup.py'):
            s = os.path.join('/repo', x)
            (shutil.copytree if os.path.isdir(s) else shutil.copy)(s, os.path.join(d, x))
        envp = {'PYTHONPATH': d, 'PYTHONDONTWRITEBYTECODE': '1'}
        demo = os.path.join(src, 'demo.py')
        rc0, out0 = sh(f'/venv/bin/python {demo}', cwd=d, env=envp, timeout=300)
        rca, outa = sh(f'patch -p1 -s < {os.path.join(src, "patch.diff")}', cwd=d)
        if rca != 0:
            print('patch does not apply:', outa)
            return 2
        rct, outt = sh('/venv/bin/python -m pytest -q -p no:cacheprovider tests 2>&1 | tail -3', cwd=d, env=envp)
        rc1, out1 = sh(f'/venv/bin/python {demo}', cwd=d, env=envp, timeout=300)
        tests_ok = ' passed' in outt and 'failed' not in outt and 'error' not in outt.lower()
        print(f'demo unpatched exit={rc0}; tests with patch: {outt.strip().splitlines()[-1] if outt.strip() else "?"}; '
              f'demo patched exit={rc1}')
        confirmed = rc0 == 0 and tests_ok and rc1 != 0
        results = {}
        for cid in checks:
            rc, out = sh(f'{ROOT}/check {cid} --tier {tier}', cwd=ROOT,
                         env={'OMBOTT_SRC': d, 'VERIF_EVIDENCE_DIR': os.path.join(d, 'evidence'),
                              'VERIF_REPLAY_DIR': os.path.join(d, 'replays')})
            lines = [l for l in out.splitlines() if l.startswith(('VIOLATION', '  what:', 'INTERNAL'))]
            results[cid] = {'exit': rc, 'tier': tier, 'first_lines': [l[:300] for l in lines[:4]]}
            print(f'  check {cid} ({tier}): exit={rc}', '| ' + lines[1][:200] if len(lines) > 1 else '')
        if not confirmed:
            print('NOT CONFIRMED - nothing stored')
            return 1
        dst = os.path.join(ROOT, 'seeded', name)
        os.makedirs(dst, exist_ok=True)
        for f in ('patch.diff', 'demo.py', 'notes.md'):
            if os.path.exists(os.path.join(src, f)) and os.path.realpath(src) != os.path.realpath(dst):
                shutil.copy(os.path.join(src, f), os.path.join(dst, f))
        meta_p = os.path.join(dst, 'meta.json')
        meta = {}
        if os.path.exists(meta_p):
            meta = json.load(open(meta_p))
        if needs is None and os.path.exists(os.path.join(src, 'notes.md')):
            needs = meta.get('needs_to_manifest') or 'see notes.md'
        meta.update({
            'name': name, 'breaks_property': prop,
            'needs_to_manifest': needs or meta.get('needs_to_manifest', 'see notes.md'),
            'origin': 'independent sub-agent given only the property text and a scratch worktree',
            'confirmed': {'demo_unpatched_exit': rc0, 'repo_tests_with_patch': outt.strip().splitlines()[-1],
                          'demo_patched_exit': rc1,
                          'how': 'scratch copy of /repo under /tmp: demo.py, patch -p1, pytest tests, demo.py'},
        })
        meta.setdefault('checks', {}).update(results)
        meta['detected_by'] = sorted(k for k, v in meta['checks'].items() if v['exit'] == 1)
        with open(meta_p, 'w') as f:
            json.dump(meta, f, indent=1, sort_keys=True)
            f.write('\n')
        return 0
    finally:
        shutil.rmtree(d, ignore_errors=True)


if __name__ == '__main__':
    sys.exit(main())
