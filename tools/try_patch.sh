#!/bin/bash
# tools/try_patch.sh <patch.diff|-R:commit> <tier> <ID>...   — run checks against a scratch copy of /repo with a patch applied
# (scratch copy lives under /tmp and is removed afterwards; /repo is not touched)
set -u
patch="$1"; tier="$2"; shift 2
d=$(mktemp -d /tmp/scratch.XXXXXX); trap "rm -rf $d" EXIT PIPE INT TERM
cp -r /repo/ombott /repo/tests /repo/setup.py "$d"/ 2>/dev/null
if [[ "$patch" == -R:* ]]; then
  (cd "$d" && git -C /repo show "${patch#-R:}" | patch -R -p1 -s) || { echo "reverse-apply failed"; rm -rf "$d"; exit 3; }
else
  (cd "$d" && patch -p1 -s < "$patch") || { echo "apply failed"; rm -rf "$d"; exit 3; }
fi
if [ "${RUN_TESTS:-0}" = 1 ]; then
  (cd "$d" && PYTHONPATH="$d" /venv/bin/python -m pytest -q -p no:cacheprovider tests 2>&1 | tail -2)
fi
rc=0
for id in "$@"; do
  OMBOTT_SRC="$d" VERIF_EVIDENCE_DIR="$d/evidence" VERIF_REPLAY_DIR="$d/replays" /verif/check "$id" --tier "$tier" 2>&1 | grep -E "VIOLATION|KNOWN-FINDING|INTERNAL|^\[|what:" | cut -c1-400 | head -${LINES_MAX:-12}
  r=${PIPESTATUS[0]}; echo "  -> $id exit=$r"; [ $r -ne 0 ] && rc=$r
done
rm -rf "$d"
exit $rc
