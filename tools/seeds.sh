#!/bin/bash
# tools/seeds.sh "<seeds>" [ID...] — run the quick tier of the given (default: all claimed) checks for several VERIF_SEED values
cd "$(dirname "$0")/.."
seeds="${1:-0 1 2}"; shift
ids="$@"
[ -z "$ids" ] && ids=$(/venv/bin/python -c "import json;print(' '.join(c['property_id'] for c in json.load(open('MANIFEST.json'))['checks']))")
for s in $seeds; do
  for id in $ids; do
    out=$(VERIF_SEED=$s VERIF_EVIDENCE_DIR=/tmp/ev_seeds VERIF_REPLAY_DIR=/tmp/rp_seeds timeout 1800 ./check $id --tier quick 2>&1); rc=$?
    line=$(echo "$out" | grep -a "^\[$id" | cut -c1-150)
    echo "seed=$s $id exit=$rc $line"
    [ $rc -ne 0 ] && echo "$out" | grep -a -E "VIOLATION|what:|INTERNAL" | cut -c1-300 | head -6
  done
done
