#!/bin/bash
# tools/wave.sh <wave-number> <ID> [extra check ids...] — confirm and store both deliverables of a wave's sub-agent (/tmp/w<N>/<ID>/out/a|b)
w="$1"; id="$2"; shift 2
for x in a b; do
  src=/tmp/w$w/$id/out/$x
  [ -f $src/patch.diff ] || { echo "$id $x: no patch"; continue; }
  echo "== $id-w$w$x: $(head -1 $src/notes.md | cut -c1-160)"
  /verif/tools/seed_add.py $id-w$w$x $id $src $id "$@" 2>&1 | cut -c1-400
done
