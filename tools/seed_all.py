#!/venv/bin/python
"""tools/seed_all.py [--tier quick] [names...] — re-confirm every stored seeded change against the CURRENT /repo tree
(patch applies, repository tests pass, demo fails, the recorded checks report it) and refresh its meta.json."""
import glob
import json
import os
import subprocess
import sys

ROOT = os.path.dirname(os.path.dirname(os.path.abspath(__file__)))
args = [a for a in sys.argv[1:] if not a.startswith('--')]
tier = 'thorough' if '--thorough' in sys.argv else 'quick'
bad = []
for meta_p in sorted(glob.glob(os.path.join(ROOT, 'seeded', '*', 'meta.json'))):
    m = json.load(open(meta_p))
    name = m['name']
    if args and name not in args:
        continue
    checks = m.get('detected_by') or [m['breaks_property']]
    if m['breaks_property'] not in checks:
        checks = [m['breaks_property']] + checks
    p = subprocess.run([os.path.join(ROOT, 'tools', 'seed_add.py'), name, m['breaks_property'], os.path.dirname(meta_p)] + checks + ['--tier', tier],
                       capture_output=True, text=True)
    out = p.stdout + p.stderr
    # confirmed again, and reported by the check of its property or, when that check is not the one that sees it
    # (a thread-schedule or history defect belongs to C08 / C09 / C10), by every other check recorded as detecting it
    own = f'check {m["breaks_property"]} ({tier}): exit=1' in out
    others = [c for c in (m.get('detected_by') or []) if c != m['breaks_property']]
    ok = p.returncode == 0 and (own or (others and all(f'check {c} ({tier}): exit=1' in out for c in others)))
    print(('OK   ' if ok else 'FAIL ') + name, '|', ' '.join(l.strip()[:90] for l in out.splitlines() if 'exit=' in l or 'patch does not' in l))
    if not ok:
        bad.append(name)
print('not confirmed:', bad)
sys.exit(1 if bad else 0)
