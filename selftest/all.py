"""Self-tests of the engines on toy systems (the machinery must be able to fail)."""
import sys


def t_canon():
    from vf.canon import Canon
    c = Canon()

    class A:
        def __init__(self):
            self.x = [1, 2]
            self.me = self
            self.m = self.f

        def f(self):
            pass
    a, b = A(), A()
    assert c(a) == c(b)
    b.x.append(3)
    assert c(a) != c(b)


def t_refmp():
    from vf import refmp
    body, lay = refmp.build(b'B', [(b'A: b', b'data'), (b'C: d', b'')], epilogue=b'\r\n')
    parts, complete = refmp.split(body, b'B')
    assert complete and parts == [(b'A: b', b'data', True), (b'C: d', b'', True)], parts
    assert refmp.well_formed(body, b'B', 2)


def main():
    n = 0
    for k, f in sorted(globals().items()):
        if k.startswith('t_'):
            f()
            n += 1
    print(f'selftest: {n} ok')
    return 0


if __name__ == '__main__':
    sys.exit(main())
