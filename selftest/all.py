"""Self-tests of the engines on toy systems (the machinery must be able to fail)."""
import sys


def t_canon():
    from vf.canon import Canon
    c = Canon()

    class A:
        def __init__(self):
            self.x = [1, 2]
            self.me = self
            self.m = self.f

        def f(self):
            pass
    a, b = A(), A()
    assert c(a) == c(b)
    b.x.append(3)
    assert c(a) != c(b)


def t_refmp():
    from vf import refmp
    body, lay = refmp.build(b'B', [(b'A: b', b'data'), (b'C: d', b'')], epilogue=b'\r\n')
    parts, complete = refmp.split(body, b'B')
    assert complete and parts == [(b'A: b', b'data', True), (b'C: d', b'', True)], parts
    assert refmp.well_formed(body, b'B', 2)


def t_watchdog():
    from vf import core

    def spin():
        while True:
            pass
    r = core.guard(spin, 0.2)
    assert isinstance(r, str) and r.startswith('hang'), r
    assert core.guard(lambda: 5, 1) == 5


def t_env_explorer():
    # toy system: a reader that loses a byte when a read is answered with exactly 2 bytes after a 1-byte answer
    from vf.env import EnvExplorer, ChoiceStream

    def run(ex):
        st = ChoiceStream(ex, b'abcdefg', '/nonexistent/')
        out = b''
        prev = None
        while True:
            p = st.read(3)
            if not p:
                break
            if prev == 1 and len(p) == 2:
                p = p[:1]
            prev = len(p)
            out += p
        return out
    ex = EnvExplorer(merge=False)
    bad = [c for c, out in ex.explore(run) if out != b'abcdefg']
    assert bad and ex.execs > 10, (bad, ex.execs)
    ex = EnvExplorer(merge=False, bound=1)
    assert not [c for c, out in ex.explore(run) if out != b'abcdefg']     # needs two deviations
    ex = EnvExplorer(merge=False, bound=2)
    assert [c for c, out in ex.explore(run) if out != b'abcdefg']
    ex2 = EnvExplorer(merge=False)
    assert ex2.replay(run, bad[0]) != b'abcdefg'


def main():
    n = 0
    for k, f in sorted(globals().items()):
        if k.startswith('t_'):
            f()
            n += 1
    print(f'selftest: {n} ok')
    return 0


if __name__ == '__main__':
    sys.exit(main())
