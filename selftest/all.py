"""Self-tests of the engines on toy systems (the machinery must be able to fail)."""
import sys


def t_canon():
    from vf.canon import Canon
    c = Canon()

    class A:
        def __init__(self):
            self.x = [1, 2]
            self.me = self
            self.m = self.f

        def f(self):
            pass
    a, b = A(), A()
    assert c(a) == c(b)
    b.x.append(3)
    assert c(a) != c(b)


def t_refmp():
    from vf import refmp
    body, lay = refmp.build(b'B', [(b'A: b', b'data'), (b'C: d', b'')], epilogue=b'\r\n')
    parts, complete = refmp.split(body, b'B')
    assert complete and parts == [(b'A: b', b'data', True), (b'C: d', b'', True)], parts
    assert refmp.well_formed(body, b'B', 2)


def t_watchdog():
    from vf import core

    def spin():
        while True:
            pass
    r = core.guard(spin, 0.2)
    assert isinstance(r, str) and r.startswith('hang'), r
    assert core.guard(lambda: 5, 1) == 5


def t_env_explorer():
    # toy system: a reader that loses a byte when a read is answered with exactly 2 bytes after a 1-byte answer
    from vf.env import EnvExplorer, ChoiceStream

    def run(ex):
        st = ChoiceStream(ex, b'abcdefg', '/nonexistent/')
        out = b''
        prev = None
        while True:
            p = st.read(3)
            if not p:
                break
            if prev == 1 and len(p) == 2:
                p = p[:1]
            prev = len(p)
            out += p
        return out
    ex = EnvExplorer(merge=False)
    bad = [c for c, out in ex.explore(run) if out != b'abcdefg']
    assert bad and ex.execs > 10, (bad, ex.execs)
    ex = EnvExplorer(merge=False, bound=1)
    assert not [c for c, out in ex.explore(run) if out != b'abcdefg']     # needs two deviations
    ex = EnvExplorer(merge=False, bound=2)
    assert [c for c, out in ex.explore(run) if out != b'abcdefg']
    ex2 = EnvExplorer(merge=False)
    assert ex2.replay(run, bad[0]) != b'abcdefg'


def t_sched():
    # toy: two threads doing a non-atomic increment lose an update under one preemption, never under zero
    from vf.sched import Scheduler, explore
    here = __file__

    def make():
        shared = {'n': 0}

        def prog():
            x = shared['n']
            y = x + 1
            shared['n'] = y
            return y
        return shared, [prog, prog]

    def run_exec(prefix):
        shared, progs = make()
        x = Scheduler(progs, prefix, lambda fn: fn == here).run()
        x.results['n'] = shared['n']
        return x
    outs0 = {x.results['n'] for _, x in explore(run_exec, 0)}
    outs1 = {x.results['n'] for _, x in explore(run_exec, 1)}
    assert outs0 == {2}, outs0
    assert outs1 == {1, 2}, outs1
    # determinism: replaying a recorded schedule gives the same execution
    bad = [p for p, x in explore(run_exec, 1) if x.results['n'] == 1][0]
    a, b = run_exec(bad), run_exec(bad)
    assert a.choices == b.choices and a.results['n'] == b.results['n'] == 1
    # sharding by first deviating point covers the same executions
    n_all = sum(1 for _ in explore(run_exec, 1))
    npts = len(run_exec(()).points)
    n_sh = sum(1 for lo in range(0, npts, 2) for _ in explore(run_exec, 1, first_points=(lo, lo + 2)))
    assert n_all == n_sh, (n_all, n_sh)


def main():
    n = 0
    for k, f in sorted(globals().items()):
        if k.startswith('t_'):
            f()
            n += 1
    print(f'selftest: {n} ok')
    return 0


if __name__ == '__main__':
    sys.exit(main())
