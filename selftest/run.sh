#!/bin/bash
# engine self-tests; fast (< 10 s); exit 0 when the machinery itself behaves
cd "$(dirname "$0")/.."
export PYTHONHASHSEED=0 TZ=UTC LC_ALL=C.UTF-8 PYTHONDONTWRITEBYTECODE=1 PYTHONPATH=/verif
exec /venv/bin/python -X utf8 -m selftest.all
