"""E-ENV — environment-choice explorer.

The harness owns the environment (wsgi.input).  Whenever the code under test asks the environment something
that has more than one legal answer (how many of the n requested bytes come back), the environment calls
``ex.choose(k, key)``.  The explorer replays a recorded prefix of choices (an out-of-range or missing choice
while replaying is a hard error), answers 0 (the default: a full read) after the prefix, and schedules every
alternative of every recorded point depth-first.  Two reductions, both reported by the caller:

* state merging: ``key`` is a canonical rendering of (stream position + every live ombott frame's locals and
  instruction pointer).  A point whose key was already expanded is not expanded again.
* deviation bounding: only executions with <= bound non-default answers.

The explorer is stateless in the CHESS sense: every execution starts from scratch on fresh objects.
"""
import io
import sys

from .canon import Canon


class ReplayDivergence(Exception):
    """The code under test did not ask the same questions while a recorded prefix was replayed."""


class Horizon(BaseException):
    """More environment calls in one execution than the horizon allows (reported as a hang)."""


class EnvExplorer:
    def __init__(self, merge=True, bound=None, horizon=2000, max_execs=2_000_000):
        self.merge = merge
        self.bound = bound
        self.horizon = horizon
        self.max_execs = max_execs
        self.execs = 0
        self.points_total = 0
        self.points_expanded = 0
        self.merged = 0
        self.capped = False
        self.seen = set()
        self.prefix = ()
        self.choices = []
        self.points = []

    # -- called by the environment ----------------------------------------------------------------------
    def choose(self, nopts, key=None):
        i = len(self.choices)
        if i >= self.horizon:
            raise Horizon()
        if i < len(self.prefix):
            c = self.prefix[i]
            if c >= nopts:
                raise ReplayDivergence(f'point {i}: recorded choice {c} but only {nopts} options now')
        else:
            c = 0
        self.choices.append(c)
        self.points.append((nopts, key))
        return c

    # -- driver -----------------------------------------------------------------------------------------
    def explore(self, run_one):
        """run_one(ex) performs ONE execution from scratch; yields (choices, result) per execution."""
        stack = [()]
        while stack:
            if self.execs >= self.max_execs:
                self.capped = True
                return
            prefix = stack.pop()
            self.prefix = prefix
            self.choices = []
            self.points = []
            result = run_one(self)
            if len(self.choices) < len(prefix):
                raise ReplayDivergence(f'execution ended after {len(self.choices)} points, prefix has {len(prefix)}')
            self.execs += 1
            choices = list(self.choices)
            points = self.points
            yield choices, result
            devs = sum(1 for c in prefix if c)
            for i in range(len(prefix), len(points)):
                nopts, key = points[i]
                self.points_total += 1
                if nopts <= 1:
                    continue
                if self.merge and key is not None:
                    if key in self.seen:
                        self.merged += 1
                        continue
                    self.seen.add(key)
                if self.bound is not None and devs + 1 > self.bound:
                    continue
                self.points_expanded += 1
                base = tuple(choices[:i])
                for alt in range(nopts - 1, 0, -1):
                    stack.append(base + (alt,))

    def replay(self, run_one, choices):
        """Re-execute exactly one recorded choice list (no exploration)."""
        self.prefix = tuple(choices)
        self.choices = []
        self.points = []
        result = run_one(self)
        if self.choices[:len(choices)] != list(choices):
            raise ReplayDivergence('choices differ on replay')
        return result


# ---- the environment object ---------------------------------------------------------------------------------

class ChoiceStream:
    """wsgi.input whose every read(n) may be answered with any 1..min(n, available) bytes.

    choice 0 = full answer; choice c (1 <= c < full) = c bytes.  End of data answers b''.
    """

    def __init__(self, ex, data, src_prefix, short=True, menu_cap=None):
        self.ex = ex
        self.data = data
        self.pos = 0
        self.calls = []          # (requested, delivered)
        self.src_prefix = src_prefix
        self.short = short
        self.menu_cap = menu_cap   # when set and a read could be answered in more than menu_cap ways, only
        #                            the answers {all, 1, 2, all-1} are offered (stated in the evidence)
        self.canon = Canon(names={id(self): 'STREAM', id(ex): 'EX'}, tb=False)
        self.extra_state = None  # optional callable adding harness state to the key

    def _key(self):
        if not self.ex.merge:
            return None
        f = sys._getframe(2)
        frames = []
        memo = {}
        while f is not None:
            fn = f.f_code.co_filename
            if fn.startswith(self.src_prefix):
                loc = f.f_locals
                frames.append((f.f_code.co_name, f.f_lineno,
                               tuple((k, self.canon._c(v, memo)) for k, v in sorted(loc.items()))))
            f = f.f_back
        extra = self.extra_state() if self.extra_state else None
        return (self.pos, tuple(frames), extra)

    def read(self, n=-1):
        avail = len(self.data) - self.pos
        if n is None or n < 0:
            req = None
            full = avail
        else:
            req = n
            full = min(n, avail)
        if full <= 1 or not self.short:
            k = full
        elif self.menu_cap is not None and full > self.menu_cap:
            menu = [full, 1, 2, full - 1]
            c = self.ex.choose(len(menu), self._key())
            k = menu[c]
        else:
            c = self.ex.choose(full, self._key())
            k = full if c == 0 else c
        out = self.data[self.pos:self.pos + k]
        self.pos += k
        self.calls.append((req, k))
        if len(self.calls) > self.ex.horizon:
            raise Horizon()
        return out

    def readline(self, *a):
        raise AssertionError('readline is not expected to be used by ombott')


def body_kind(b):
    if isinstance(b, io.BytesIO):
        return 'memory'
    return 'file' if hasattr(b, 'fileno') else type(b).__name__
