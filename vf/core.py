"""Runner core shared by every check: shard pool, result merging, violation triage (replay twice, match
known findings), evidence file, replay files.

A property module (props/cNN.py) provides

    ID, TITLE, ENGINE, RULE          strings
    shards(tier, seed) -> [spec]     picklable work units, deterministic order
    work(spec) -> dict               see new_result(); runs in a pool worker
    replay(case) -> None | str       re-executes ONE case from scratch on the real code, no explorer, no merging;
                                     None = property holds on that case, str = what is wrong
    FLOORS = {counter: minimum}      vacuity guards (internal error when not reached)
    post(run) (optional)             extra cross-shard bookkeeping
"""
import collections
import hashlib
import json
import multiprocessing
import os
import signal
import sys
import time
import traceback

ROOT = os.path.dirname(os.path.dirname(os.path.abspath(__file__)))
MAX_SAMPLES = 6
MAX_VIOL_PER_SHARD = 400
MAX_REPORTED = 40


def new_result():
    return {
        'states': 0,            # distinct canonical states / inputs explored
        'transitions': 0,       # implementation steps taken from those states
        'execs': 0,             # complete executions of the real code compared with the oracle
        'counters': collections.Counter(),
        'outcomes': set(),      # distinct observed outcomes (short strings)
        'nontrivial': 0,        # distinct non-trivial cases (rule stated by the module)
        'samples': [],
        'violations': [],       # {'case':…, 'what':…, 'sig':…}
        'caps': [],             # caps hit (strings)
        'notes': [],
    }


def add_violation(res, case, what, sig=None):
    if len(res['violations']) < MAX_VIOL_PER_SHARD:
        v = {'case': case, 'what': what, 'sig': sig}
        prev = _track.get('prev') if '_track' in globals() else None
        if prev is not None and _track.get('res') is res:
            v['prev'] = prev            # the evaluation that ran just before this one in the same worker process
        res['violations'].append(v)
    res['counters']['violations_raw'] += 1


def saturated(res):
    """the shard has already collected its full quota of violations: exploring further cannot change the verdict (under a badly broken
    tree the space below every case may be orders of magnitude larger than on a correct one)"""
    if len(res['violations']) >= MAX_VIOL_PER_SHARD:
        if not any(n.startswith('shard stopped early') for n in res['notes']):
            res['notes'].append(f'shard stopped early after {MAX_VIOL_PER_SHARD} violations')
        return True
    return False


def add_sample(res, s):
    if len(res['samples']) < MAX_SAMPLES:
        res['samples'].append(s)


def jsonable(o):
    if isinstance(o, (str, int, float, bool)) or o is None:
        return o
    if isinstance(o, bytes):
        return {'$b': o.decode('latin1')}
    if isinstance(o, (list, tuple)):
        return [jsonable(x) for x in o]
    if isinstance(o, (set, frozenset)):
        return sorted((jsonable(x) for x in o), key=repr)
    if isinstance(o, dict):
        return {str(k): jsonable(v) for k, v in o.items()}
    return repr(o)


def unjson(o):
    if isinstance(o, dict):
        if set(o) == {'$b'}:
            return o['$b'].encode('latin1')
        return {k: unjson(v) for k, v in o.items()}
    if isinstance(o, list):
        return [unjson(x) for x in o]
    return o


def load_findings():
    p = os.path.join(ROOT, 'known_findings.json')
    if not os.path.exists(p):
        return []
    with open(p) as f:
        return json.load(f)['findings']


# ---- hang detection: a property module calls track(res, case) before each evaluation; if the evaluation does not
# come back within HANG_S seconds the worker turns it into a violation (signature 'hang') for that case ----------
HANG_S = float(os.environ.get('VERIF_HANG_S', '20'))
_track = {'res': None, 'case': None}


class Hang(BaseException):
    pass


def _on_alarm(signum, frame):
    raise Hang()


def track(res, case, seconds=None):
    _track['prev'] = _track.get('case') if _track.get('res') is res else None
    _track['res'] = res
    _track['case'] = case
    _track['seconds'] = seconds or HANG_S
    signal.setitimer(signal.ITIMER_REAL, seconds or HANG_S)


def untrack():
    signal.setitimer(signal.ITIMER_REAL, 0)
    _track['res'] = _track['case'] = _track['prev'] = None


def replay_after(mod, prev, case):
    """Replay `case` right after `prev` on a freshly imported system under test: the verdict for behaviour that shows
    only with the state an earlier evaluation left behind in the process."""
    from . import sut
    sut.load(fresh=True)
    try:
        mod.replay(unjson(jsonable(prev)))
        return mod.replay(unjson(jsonable(case)))
    finally:
        sut.load(fresh=True)


def guard(fn, seconds=None):
    """Run fn(); return its value, or the string 'hang: …' when it does not finish in time."""
    old = signal.signal(signal.SIGALRM, _on_alarm)
    signal.setitimer(signal.ITIMER_REAL, seconds or HANG_S)
    try:
        return fn()
    except Hang:
        return f'hang: the evaluation did not finish within {seconds or HANG_S:.0f} s'
    finally:
        signal.setitimer(signal.ITIMER_REAL, 0)
        signal.signal(signal.SIGALRM, old)


def _worker(args):
    modname, spec = args
    import importlib
    mod = importlib.import_module(modname)
    signal.signal(signal.SIGALRM, _on_alarm)
    try:
        return mod.work(spec)
    except Hang:
        r, case = _track['res'], _track['case']
        if r is None:
            r = new_result()
            r['internal_error'] = f'spec={spec!r}: watchdog fired outside a tracked evaluation'
            return r
        add_violation(r, case, f'evaluation did not finish within {_track.get("seconds") or HANG_S:.0f} s (hang)', sig='hang')
        r['notes'].append(f'shard {spec!r} abandoned after a hang')
        return r
    except Exception:
        r = new_result()
        r['internal_error'] = f'spec={spec!r}\n' + traceback.format_exc()
        return r
    finally:
        untrack()


class Run:
    def __init__(self, mod, tier, seed):
        self.mod = mod
        self.pid = mod.ID
        self.tier = tier
        self.seed = seed
        self.t0 = time.time()
        self.res = new_result()
        self.internal_errors = []

    def merge(self, r):
        if 'internal_error' in r:
            self.internal_errors.append(r['internal_error'])
        a = self.res
        for k in ('states', 'transitions', 'execs', 'nontrivial'):
            a[k] += r[k]
        a['counters'].update(r['counters'])
        a['outcomes'] |= set(r['outcomes'])
        for s in r['samples']:
            add_sample(a, s)
        a['violations'].extend(r['violations'])
        a['caps'].extend(r['caps'])
        a['notes'].extend(r['notes'])

    def execute(self, jobs=None):
        specs = list(self.mod.shards(self.tier, self.seed))
        self.nshards = len(specs)
        jobs = jobs or int(os.environ.get('VERIF_JOBS', '16'))
        modname = self.mod.__name__
        if jobs <= 1 or len(specs) <= 1:
            for s in specs:
                self.merge(_worker((modname, s)))
        else:
            import concurrent.futures as cf
            ctx = multiprocessing.get_context('fork')
            with cf.ProcessPoolExecutor(min(jobs, len(specs)), mp_context=ctx) as pool:
                futs = [pool.submit(_worker, (modname, s)) for s in specs]
                for s, f in zip(specs, futs):      # merged in shard order: output does not depend on timing
                    try:
                        self.merge(f.result())
                    except cf.process.BrokenProcessPool:
                        self.internal_errors.append(f'a worker process died while shard {s!r} was pending')
                        break
                    except Exception:
                        self.internal_errors.append(f'shard {s!r}: ' + traceback.format_exc())
        post = getattr(self.mod, 'post', None)
        if post:
            post(self)

    # -- verdict --------------------------------------------------------------------------------------
    def finish(self):
        res = self.res
        out = []
        exit_code = 0
        known = [f for f in load_findings() if f['property'] == self.pid and f['status'] == 'known']
        known_sigs = {f['signature']: f for f in known}
        by_sig = collections.OrderedDict()
        for v in res['violations']:
            sig = v['sig'] or 'case:' + hashlib.sha1(
                json.dumps(jsonable(v['case']), sort_keys=True).encode()).hexdigest()[:12]
            v['sig'] = sig
            by_sig.setdefault(sig, []).append(v)
        reported = 0
        known_seen = {}
        new_viol = 0
        for sig, vs in by_sig.items():
            # every verdict is re-established from scratch, twice, without the explorer; the smallest case of the
            # signature is tried first, and further cases (up to 12) when one does not reproduce - e.g. because it was
            # only a consequence of state left behind by an earlier execution in the same worker
            # (cases that were evaluated on a fresh import are self-contained: they go first)
            cands = sorted(vs, key=lambda x: (0 if isinstance(x['case'], dict) and x['case'].get('fresh') else 1,
                                              len(json.dumps(jsonable(x['case'])))))[:12]
            v = r1 = r2 = None
            failed = []
            for cand in cands:
                try:
                    a = guard(lambda: self.mod.replay(unjson(jsonable(cand['case']))))
                    b = guard(lambda: self.mod.replay(unjson(jsonable(cand['case']))))
                except Exception:
                    failed.append(f'replay of {sig} raised:\n' + traceback.format_exc())
                    continue
                if a is None and b is None and cand.get('prev') is not None and not getattr(self.mod, 'NO_HISTORY_REPLAY', False):
                    # not reproducible on its own: does it depend on what the preceding evaluation left in the process?
                    try:
                        ha = guard(lambda: replay_after(self.mod, cand['prev'], cand['case']))
                        hb = guard(lambda: replay_after(self.mod, cand['prev'], cand['case']))
                    except Exception:
                        ha = hb = None
                    if ha is not None and ha == hb:
                        cand = dict(cand, history=True)
                        a = b = ('HISTORY-DEPENDENT: only after the evaluation ' + json.dumps(jsonable(cand['prev']))[:300] +
                                 ' in the same process (fresh import before it): ' + ha)
                if a is None or b is None or a != b:
                    failed.append(
                        f'violation {sig} did not reproduce identically on replay: explorer said {cand["what"]!r}; '
                        f'replay 1 {a!r}; replay 2 {b!r}; case={jsonable(cand["case"])!r}')
                    continue
                v, r1, r2 = cand, a, b
                break
            if v is None:
                self.internal_errors.extend(failed[:2])
                continue
            if failed:
                res['notes'].append(f'{len(failed)} case(s) of signature {sig} did not reproduce on replay (state left by earlier executions?)')
            if sig in known_sigs:
                known_seen[sig] = len(vs)
                out.append(f'KNOWN-FINDING: property={self.pid} {known_sigs[sig]["description"]} '
                           f'[{sig}; {len(vs)} case(s) this run; e.g. {r1[:160]}]')
                continue
            new_viol += 1
            if reported < MAX_REPORTED:
                reported += 1
                path = self.write_replay(sig, v, r1, len(vs))
                out.append(f'VIOLATION property={self.pid} replay={path}')
                out.append(f'  what: {r1[:400]}')
            exit_code = 1
        # vacuity floors
        floors = getattr(self.mod, 'FLOORS', {})
        if callable(floors):
            floors = floors(self.tier)
        for k, m in floors.items():
            have = res['counters'].get(k, 0) if k not in ('states', 'transitions', 'execs') else res[k]
            if have < m:
                self.internal_errors.append(f'vacuity floor not reached: {k}={have} < {m}')
        wall = time.time() - self.t0
        self.write_evidence(wall, new_viol, known_seen)
        for line in out:
            print(line)
        c = res['counters']
        print(f'[{self.pid} {self.tier} seed={self.seed}] shards={self.nshards} states={res["states"]} '
              f'transitions={res["transitions"]} executions={res["execs"]} outcomes={len(res["outcomes"])} '
              f'nontrivial={res["nontrivial"]} violations={new_viol} known={len(known_seen)} '
              f'caps={len(res["caps"])} wall={wall:.1f}s')
        print('  counters: ' + ', '.join(f'{k}={v}' for k, v in sorted(c.items())))
        if self.internal_errors:
            for e in self.internal_errors[:10]:
                print('INTERNAL-ERROR: ' + e, file=sys.stderr)
            return 1 if exit_code == 1 else 2
        return exit_code

    def write_replay(self, sig, v, what, ncases):
        d = os.path.join(os.environ.get('VERIF_REPLAY_DIR') or os.path.join(ROOT, 'replays'), self.pid)
        os.makedirs(d, exist_ok=True)
        name = hashlib.sha1(sig.encode()).hexdigest()[:12] + '.json'
        path = os.path.join(d, name)
        with open(path, 'w') as f:
            json.dump({'property': self.pid, 'signature': sig, 'what': what, 'explorer_said': v['what'],
                       'prev': jsonable(v.get('prev')) if v.get('history') else None,
                       'cases_with_this_signature': ncases, 'tier': self.tier, 'seed': self.seed,
                       'case': jsonable(v['case']),
                       'replay_cmd': f'./check {self.pid} --replay {path}'}, f, indent=1, sort_keys=True)
        return path

    def write_evidence(self, wall, new_viol, known_seen):
        res = self.res
        mod = self.mod
        d = os.environ.get('VERIF_EVIDENCE_DIR') or os.path.join(ROOT, 'evidence')
        os.makedirs(d, exist_ok=True)
        cov = {
            'states': res['states'],
            'transitions': res['transitions'],
            'traces_validated_against_impl': res['execs'],
            'samples': jsonable(res['samples']) or ['(none)'],
            'evaluations': res['execs'],
            'distinct_nontrivial': res['nontrivial'],
            'rule': getattr(mod, 'RULE', ''),
            'exhaustive': not res['caps'],
            'caps_hit': res['caps'][:20],
            'distinct_outcomes': len(res['outcomes']),
            'outcome_examples': sorted(res['outcomes'])[:25],
            'counters': dict(sorted(res['counters'].items())),
            'engine': getattr(mod, 'ENGINE', ''),
            'bounds': (mod.bounds(self.tier, self.seed) if hasattr(mod, 'bounds') else {}),
            'shards': self.nshards,
            'known_findings_seen': known_seen,
            'notes': res['notes'][:20],
            'internal_errors': self.internal_errors[:5],
            'explanation': ('Exploration runs on the implementation itself: every state/transition counted here '
                            'is a state/step of the real ombott code imported from the working tree, and every '
                            'execution was compared with the reference model or differential oracle.'),
        }
        ev = {
            'property_id': self.pid,
            'tier': self.tier,
            'seed': self.seed,
            'level': 'model_checking',
            'coverage': cov,
            'assumptions': list(getattr(mod, 'ASSUMPTIONS', [])),
            'wall_s': round(wall, 2),
            'violations': new_viol,
        }
        with open(os.path.join(d, self.pid + '.json'), 'w') as f:
            json.dump(ev, f, indent=1, sort_keys=True)
            f.write('\n')
