"""Reference multipart/form-data encoder and splitter (independent of ombott)."""

CRLF = b'\r\n'


def build(boundary, parts, lead=b'', epilogue=b'', close=True):
    """parts: list of (header_block_bytes, data_bytes).  Returns (body, layout).

    layout = {'sections': [['data',(0,0)], ['headers',(s,e)], ['data',(s,e)], …],
              'delims': [(start,end) of every CRLF--boundary (the first may lack its CRLF)],
              'hdr_ends': [(start,end) of every CRLFCRLF], 'final_hyphens': (s,e) | None, 'close_end': int}
    """
    dl = b'--' + boundary
    out = bytearray(lead)
    sections = []
    delims = []
    hdr_ends = []
    # first delimiter: the body may start directly with --boundary (no CRLF)
    if lead.endswith(CRLF):
        delims.append((len(out) - 2, len(out) + len(dl)))
        sections.append(['data', (0, len(out) - 2)])
    else:
        delims.append((len(out), len(out) + len(dl)))
        sections.append(['data', (0, len(out))])
    out += dl
    for hb, data in parts:
        out += CRLF
        hs = len(out)
        out += hb
        he = len(out)
        hdr_ends.append((he, he + 4))
        out += CRLF + CRLF
        ds = len(out)
        out += data
        de = len(out)
        delims.append((de, de + 2 + len(dl)))
        out += CRLF + dl
        sections.append(['headers', (hs, he)])
        sections.append(['data', (ds, de)])
    fh = None
    if close:
        fh = (len(out), len(out) + 2)
        out += b'--'
    close_end = len(out)
    out += epilogue
    return bytes(out), {'sections': sections, 'delims': delims, 'hdr_ends': hdr_ends,
                        'final_hyphens': fh, 'close_end': close_end}


def well_formed(body, boundary, nparts, lead=b''):
    """The delimiter must occur exactly nparts+1 times (no accidental delimiter inside data/headers)."""
    tok = CRLF + b'--' + boundary
    n = 0
    i = body.find(tok)
    while i >= 0:
        n += 1
        i = body.find(tok, i + 1)
    if not lead.endswith(CRLF) and body.startswith(b'--' + boundary):
        n += 1
    return n == nparts + 1


def split(body, boundary):
    """Independent splitter: returns (parts, complete) where parts = [(header_block, data, terminated)], using
    bytes.find on CRLF--boundary.  A part is 'terminated' when a delimiter follows its data."""
    dl = b'--' + boundary
    tok = CRLF + dl
    if body.startswith(dl):
        pos = len(dl)
    else:
        i = body.find(tok)
        if i < 0:
            return [], False
        pos = i + len(tok)
    parts = []
    while True:
        nxt = body[pos:pos + 2]
        if nxt == b'--':
            return parts, True
        if nxt != CRLF:
            return parts, False
        pos += 2
        he = body.find(CRLF + CRLF, pos)
        j = body.find(tok, pos)
        if he < 0 or (0 <= j < he):
            return parts, False
        ds = he + 4
        j = body.find(tok, ds)
        if j < 0:
            parts.append((body[pos:he], body[ds:], False))
            return parts, False
        parts.append((body[pos:he], body[ds:j], True))
        pos = j + len(tok)


def cd(name, filename=None, ctype=None):
    """Content-Disposition header block for a form field (str in, utf-8 bytes out)."""
    h = f'Content-Disposition: form-data; name="{name}"'
    if filename is not None:
        h += f'; filename="{filename}"'
    if ctype is not None:
        h += f'\r\nContent-Type: {ctype}'
    return h.encode('utf8')


def chunked_encode(payload_parts, ext=b'', trailer=b'', final_crlf=True, hexfmt='%x'):
    out = bytearray()
    for p in payload_parts:
        out += (hexfmt % len(p)).encode() + ext + CRLF + p + CRLF
    out += b'0' + CRLF + trailer
    if final_crlf:
        out += CRLF
    return bytes(out)
