"""E-SCHED — controlled thread scheduler with iterative preemption bounding (CHESS style), for CPython threads.

Every program runs on its own fresh OS thread, but only the thread holding the baton (one semaphore per thread)
executes.  Scheduling points are the `line` trace events (optionally `opcode` events) of frames whose file name
satisfies a predicate (the ombott package and the harness handlers); at a point the running thread asks the
scheduler, which follows the recorded choice list of the current execution: choice 0 = keep running, choice k = hand
the baton to the k-th other enabled thread (ascending ids) and block.  When a thread finishes, the baton goes to a
chosen unfinished thread (a free choice, not a preemption); which thread starts is a free choice too.
Exploration is stateless: an execution is identified by its choice list; `explore` runs the default continuation of
every prefix and schedules all alternatives whose preemption count stays within the bound.
Ombott uses no locks, so there is nothing else to intercept; a thread that never returns the baton is reported as a
hang by the join timeout.
"""
import sys
import threading


class SchedError(Exception):
    pass


class Execution:
    __slots__ = ('choices', 'points', 'errors', 'hung', 'results', 'switches')

    def __init__(self):
        self.choices = []     # choice taken at every point
        self.points = []      # (number of options, running_thread_still_enabled)
        self.errors = {}      # tid -> exception raised by the program
        self.hung = False
        self.results = {}
        self.switches = 0


class Scheduler:
    def __init__(self, programs, prefix, is_traced, opcode_files=(), join_timeout=20.0, granularity='line'):
        self.programs = programs
        self.n = len(programs)
        self.prefix = tuple(prefix)
        self.is_traced = is_traced
        self.opcode_files = tuple(opcode_files)
        self.join_timeout = join_timeout
        self.granularity = granularity     # 'line': every source line is a scheduling point; 'call': function entries only
        self.sems = [threading.Semaphore(0) for _ in programs]
        self.finished = [False] * self.n
        self.x = Execution()
        self.abort = False

    # -- decisions ------------------------------------------------------------------------------------------------
    def _choose(self, nopt, running_enabled):
        i = len(self.x.choices)
        if i < len(self.prefix):
            c = self.prefix[i]
            if c >= nopt:
                self.abort = True
                raise SchedError(f'replay divergence at point {i}: choice {c} of {nopt} options')
        else:
            c = 0
        self.x.choices.append(c)
        self.x.points.append((nopt, running_enabled))
        return c

    def point(self, tid):
        others = [t for t in range(self.n) if t != tid and not self.finished[t]]
        if not others:
            return
        c = self._choose(1 + len(others), True)
        if c:
            self.x.switches += 1
            self.sems[others[c - 1]].release()
            self.sems[tid].acquire()

    def _finish(self, tid):
        self.finished[tid] = True
        rest = [t for t in range(self.n) if not self.finished[t]]
        if not rest:
            return
        c = self._choose(len(rest), False) if len(rest) > 1 else 0
        self.sems[rest[c]].release()

    # -- tracing ----------------------------------------------------------------------------------------------------
    def _make_tracer(self, tid):
        point = self.point
        is_traced = self.is_traced
        opfiles = self.opcode_files
        choices, points = self.x.choices, self.x.points
        plen = len(self.prefix)
        finished = self.finished
        n = self.n

        def local(frame, event, arg):
            if event == 'line' or event == 'opcode':
                if len(choices) >= plen:
                    # beyond the recorded prefix the default (keep running) is taken: record the point without the
                    # generic bookkeeping - this is the hot path of every execution
                    alive = n - sum(finished)
                    if alive > 1:
                        choices.append(0)
                        points.append((alive, True))
                else:
                    point(tid)
            return local
        calls_only = self.granularity == 'call'

        def glob(frame, event, arg):
            fn = frame.f_code.co_filename
            if is_traced(fn):
                if calls_only:
                    point(tid)
                    return None
                if opfiles and fn.endswith(opfiles):
                    frame.f_trace_opcodes = True
                return local
            return None
        return glob

    def _body(self, tid):
        self.sems[tid].acquire()
        sys.settrace(self._make_tracer(tid))
        try:
            self.x.results[tid] = self.programs[tid]()
        except SchedError:
            pass
        except BaseException as e:   # noqa
            self.x.errors[tid] = e
        finally:
            sys.settrace(None)
            try:
                self._finish(tid)
            except SchedError:
                # let everybody go so that the threads can end
                for s in self.sems:
                    s.release()

    def run(self):
        threads = [threading.Thread(target=self._body, args=(t,), daemon=True) for t in range(self.n)]
        for t in threads:
            t.start()
        try:
            first = self._choose(self.n, False) if self.n > 1 else 0
        except SchedError:
            first = 0
        self.sems[first].release()
        for t in threads:
            t.join(self.join_timeout)
            if t.is_alive():
                self.x.hung = True
                break
        if self.abort:
            raise SchedError('replay divergence')
        return self.x


def preemptions(points, choices, upto=None):
    n = 0
    for (nopt, running), c in list(zip(points, choices))[:upto]:
        if running and c:
            n += 1
    return n


def explore(run_exec, bound, first_points=None, max_execs=None, base=()):
    """run_exec(prefix) -> Execution.  Yields every execution with at most `bound` preemptions.
    base = choices fixed at the root (e.g. which thread starts).  first_points = (lo, hi): only deviations of the
    root schedule whose FIRST deviating point index lies in [lo, hi) are explored by this call (sharding); the root
    schedule itself is yielded when lo <= len(base)."""
    base = tuple(base)
    stack = [base]
    execs = 0
    while stack:
        prefix = stack.pop()
        x = run_exec(prefix)
        execs += 1
        top = prefix == base
        if not (top and first_points and first_points[0] > len(base)):
            yield prefix, x
        if max_execs and execs >= max_execs:
            return
        pre = preemptions(x.points, x.choices, len(prefix))
        for i in range(len(x.points) - 1, len(prefix) - 1, -1):
            if top and first_points and not (first_points[0] <= i < first_points[1]):
                continue
            nopt, running = x.points[i]
            if nopt <= 1:
                continue
            if running and pre + 1 > bound:
                continue
            base = tuple(x.choices[:i])
            for alt in range(nopt - 1, 0, -1):
                stack.append(base + (alt,))
