"""Generic canonical rendering of live Python object graphs, used ONLY to deduplicate explored states
(never by an oracle).  Nothing is hard-coded about ombott's private names: the walker descends through
containers, __dict__ and __slots__, so a refactoring changes the shape of the canonical form, not its validity.
"""
import io
import re
import types
import threading

_ATOM = (str, bytes, int, float, bool, type(None), complex)
_local_type = type(threading.local())
_re_type = type(re.compile(''))


def _first(kv):
    return kv[0]


class Canon:
    def __init__(self, names=None, skip=None, tb=True):
        self.names = names or {}      # id(obj) -> stable name (harness handlers, hooks …)
        self.skip = skip or (lambda owner, key: False)
        self.tb = tb

    def __call__(self, o):
        return self._c(o, {})

    def _slots(self, o):
        out = {}
        for cls in type(o).__mro__:
            sl = cls.__dict__.get('__slots__', ())
            if isinstance(sl, str):
                sl = (sl,)
            for s in sl:
                if s in ('__dict__', '__weakref__'):
                    continue
                try:
                    out[s] = getattr(o, s)
                except AttributeError:
                    pass
        return out

    def _c(self, o, memo):
        if isinstance(o, _ATOM):
            return (type(o).__name__, o) if isinstance(o, (bytes, bool)) else o
        i = id(o)
        if i in self.names:
            return ('N', self.names[i])
        if i in memo:
            return ('@', memo[i])
        memo[i] = len(memo)
        memo.setdefault(None, []).append(o)   # keep it alive: a freed temporary's id could be reused
        c = self._c
        if isinstance(o, (list, tuple)):
            return ('L' if isinstance(o, list) else 'T',) + tuple(c(x, memo) for x in o)
        if isinstance(o, dict):
            try:
                src = sorted(o.items(), key=_first)      # str keys (the common case): no repr needed
                presorted = True
            except TypeError:
                src = o.items()
                presorted = False
            items = [(c(k, memo), c(v, memo)) for k, v in src if not self.skip(o, k)]
            if type(o) is not dict:
                extra = getattr(o, '__dict__', None)
                if extra:
                    items.append(('__dict__', c(extra, memo)))
                return ('D', type(o).__name__, tuple(items if presorted else sorted(items, key=repr)))
            return ('D', tuple(items if presorted else sorted(items, key=repr)))
        if isinstance(o, (set, frozenset)):
            return ('S', tuple(sorted((c(x, memo) for x in o), key=repr)))
        if isinstance(o, types.MethodType):
            return ('M', o.__func__.__qualname__, c(o.__self__, memo))
        if isinstance(o, types.FunctionType) and hasattr(o, 'hid'):
            return ('H', o.hid)      # harness handler / hook with a stable identity
        if isinstance(o, (types.FunctionType, types.BuiltinFunctionType, types.BuiltinMethodType)):
            return ('F', getattr(o, '__module__', None), getattr(o, '__qualname__', repr(type(o))))
        if isinstance(o, type):
            return ('C', o.__module__, o.__qualname__)
        if isinstance(o, types.ModuleType):
            return ('MOD', o.__name__)
        if isinstance(o, _re_type):
            return ('RE', o.pattern)
        if isinstance(o, _local_type):
            return ('TL', c(dict(o.__dict__), memo))
        if isinstance(o, BaseException):
            tb = 0
            if self.tb:
                t = o.__traceback__
                while t is not None:
                    tb += 1
                    t = t.tb_next
            d = dict(getattr(o, '__dict__', {}) or {})
            d.update(self._slots(o))
            return ('E', type(o).__qualname__, c(o.args, memo), tb,
                    c(o.__context__, memo) if o.__context__ is not None else None,
                    tuple(sorted(((k, c(v, memo)) for k, v in d.items()), key=repr)))
        if isinstance(o, types.GeneratorType):
            fr = o.gi_frame
            if fr is None:
                return ('G', o.__qualname__, 'done')
            return ('G', o.__qualname__, fr.f_lineno,
                    tuple(sorted(((k, c(v, memo)) for k, v in fr.f_locals.items()), key=repr)))
        if isinstance(o, (types.FrameType, types.TracebackType, types.CodeType)):
            return ('X', type(o).__name__)
        if isinstance(o, io.BytesIO):
            extra = getattr(o, '__dict__', None)
            return ('BIO', o.getvalue() if not o.closed else None, o.tell() if not o.closed else None,
                    c(extra, memo) if extra else None)
        if isinstance(o, io.IOBase):
            if getattr(o, 'closed', False):
                return ('IO', type(o).__name__, 'closed')
            try:
                pos = o.tell()
                o.seek(0)
                data = o.read()
                o.seek(pos)
            except Exception:
                return ('IO', type(o).__name__, 'opaque')
            extra = getattr(o, '__dict__', None)
            return ('IO', type(o).__name__, data, pos, c({k: v for k, v in extra.items() if k != 'name'}, memo) if extra else None)
        d = {}
        od = getattr(o, '__dict__', None)
        if isinstance(od, dict):
            d.update(od)
        d.update(self._slots(o))
        if not d and not hasattr(o, '__dict__') and not type(o).__mro__[0].__dict__.get('__slots__'):
            r = repr(o)
            r = re.sub(r' at 0x[0-9a-f]+', '', r)
            return ('R', type(o).__qualname__, r)
        return ('O', type(o).__qualname__,
                tuple((k, c(v, memo)) for k, v in sorted(d.items(), key=_first) if not self.skip(o, k)))


default = Canon()
