import argparse
import importlib
import json
import os
import sys

from . import core


def main(argv=None):
    ap = argparse.ArgumentParser(prog='check')
    ap.add_argument('id')
    ap.add_argument('--tier', default=os.environ.get('VERIF_TIER') or 'quick', choices=['quick', 'thorough'])
    ap.add_argument('--seed', type=int, default=None)
    ap.add_argument('--replay', default=None)
    ap.add_argument('--jobs', type=int, default=None)
    a = ap.parse_args(argv)
    seed = a.seed
    if seed is None:
        try:
            seed = int(os.environ.get('VERIF_SEED', '0') or 0)
        except ValueError:
            seed = 0
    mod = importlib.import_module('props.' + a.id.lower())
    if a.replay:
        with open(a.replay) as f:
            doc = json.load(f)
        case = core.unjson(doc['case'])
        if doc.get('prev') is not None:
            r = core.guard(lambda: core.replay_after(mod, core.unjson(doc['prev']), case))
        else:
            r = core.guard(lambda: mod.replay(case))
        print(json.dumps(doc['case'], indent=1)[:4000])
        if r is None:
            print(f'replay: property {mod.ID} HOLDS on this case')
            return 0
        print(f'replay: {r}')
        print(f'VIOLATION property={mod.ID} replay={a.replay}')
        return 1
    run = core.Run(mod, a.tier, seed)
    run.execute(a.jobs)
    return run.finish()


if __name__ == '__main__':
    sys.exit(main())
