"""A tiny, strict WSGI "server" for driving Ombott.__call__, plus an independent PEP 3333 validator."""
import io
import re


class ErrStream:
    def __init__(self):
        self.buf = []

    def write(self, s):
        self.buf.append(s)

    def flush(self):
        pass

    def writelines(self, seq):
        self.buf.extend(seq)

    def text(self):
        return ''.join(str(x) for x in self.buf)


def environ(method='GET', path='/', qs='', body=None, headers=None, input=None, ctype=None, clen='auto',
            chunked=False, **extra):
    """Build a WSGI environ. `path` and `qs` are given as the *server* would put them (native latin-1 str)."""
    env = {
        'REQUEST_METHOD': method,
        'SCRIPT_NAME': '',
        'PATH_INFO': path,
        'QUERY_STRING': qs,
        'SERVER_NAME': 'srv.test',
        'SERVER_PORT': '80',
        'SERVER_PROTOCOL': 'HTTP/1.1',
        'wsgi.version': (1, 0),
        'wsgi.url_scheme': 'http',
        'wsgi.multithread': True,
        'wsgi.multiprocess': False,
        'wsgi.run_once': False,
        'wsgi.errors': ErrStream(),
    }
    if input is not None:
        env['wsgi.input'] = input
    else:
        env['wsgi.input'] = io.BytesIO(body or b'')
    if clen == 'auto':
        if body is not None and not chunked:
            env['CONTENT_LENGTH'] = str(len(body))
    elif clen is not None:
        env['CONTENT_LENGTH'] = str(clen)
    if chunked:
        env['HTTP_TRANSFER_ENCODING'] = 'chunked'
    if ctype is not None:
        env['CONTENT_TYPE'] = ctype
    for k, v in (headers or {}).items():
        env['HTTP_' + k.upper().replace('-', '_')] = v
    env.update(extra)
    return env


class Call:
    """Record of one app(environ, start_response) call driven to completion like a server would."""
    __slots__ = ('sr_calls', 'status', 'headers', 'exc_info_given', 'chunks', 'ret_type', 'escaped',
                 'closed', 'errors', 'write_called', 'iter_error', 'has_close', 'sr_before_first_chunk')

    @property
    def body(self):
        return b''.join(c for c in self.chunks if isinstance(c, bytes))

    @property
    def code(self):
        try:
            return int(self.status[:3])
        except Exception:
            return None

    def header(self, name, default=None):
        for k, v in self.headers or []:
            if isinstance(k, str) and k.lower() == name.lower():
                return v
        return default

    def headers_all(self, name):
        return [v for k, v in self.headers or [] if isinstance(k, str) and k.lower() == name.lower()]

    def summary(self):
        return (self.status, tuple(tuple(h) for h in self.headers or ()), self.body)


class FileWrapper:
    """what a server offers as environ['wsgi.file_wrapper'] (like wsgiref.util.FileWrapper): it sends the file-like
    object from its current position to its END in blocks of blksize"""

    def __init__(self, filelike, blksize=8192):
        self.filelike, self.blksize = filelike, blksize
        if hasattr(filelike, 'close'):
            self.close = filelike.close

    def __iter__(self):
        while True:
            d = self.filelike.read(self.blksize)
            if not d:
                return
            yield d


SERVER_MARK = 'X-Served-By'


def call(app, env, max_chunks=100000, server_edits_headers=False):
    """server_edits_headers: behave like wsgiref - the server adds its own entries to the very list object the
    application passed to start_response (PEP 3333: the server may change that list in any way it likes)."""
    c = Call()
    c.sr_calls = []
    c.status = None
    c.headers = None
    c.exc_info_given = False
    c.chunks = []
    c.ret_type = None
    c.escaped = None
    c.closed = 0
    c.write_called = False
    c.iter_error = None
    c.has_close = False
    c.sr_before_first_chunk = True
    live = []

    def start_response(status, headers, exc_info=None):
        c.sr_calls.append((status, list(headers) if isinstance(headers, list) else headers, exc_info is not None))
        c.status = status
        c.headers = list(headers) if (server_edits_headers and type(headers) is list) else headers
        c.exc_info_given = exc_info is not None
        if server_edits_headers and type(headers) is list:
            headers.append((SERVER_MARK, 'vf'))
            live.append(headers)

        def write(data):
            c.write_called = True
        return write

    try:
        it = app(env, start_response)
    except BaseException as e:   # noqa
        if type(e).__name__ in ('Hang', 'Horizon'):
            raise                # the harness' own watchdog / step horizon: not an answer of the application
        c.escaped = e
        c.errors = env['wsgi.errors'].text() if hasattr(env.get('wsgi.errors'), 'text') else ''
        return c
    c.ret_type = type(it).__name__
    c.has_close = hasattr(it, 'close')
    try:
        n = 0
        for chunk in it:
            if not c.sr_calls:
                c.sr_before_first_chunk = False
            c.chunks.append(chunk)
            n += 1
            if n > max_chunks:
                c.iter_error = 'too many chunks'
                break
    except BaseException as e:   # noqa
        if type(e).__name__ in ('Hang', 'Horizon'):
            raise
        c.iter_error = e
    finally:
        cl = getattr(it, 'close', None)
        if cl is not None:
            try:
                cl()
                c.closed += 1
            except BaseException as e:   # noqa
                c.iter_error = c.iter_error or e
    c.errors = env['wsgi.errors'].text() if hasattr(env.get('wsgi.errors'), 'text') else ''
    for hl in live:
        if not any(isinstance(h, tuple) and len(h) == 2 and isinstance(h[0], str) and h[0].lower() == 'content-length' for h in hl):
            hl.append(('Content-Length', str(len(c.body))))       # wsgiref does this for single-chunk answers
    return c


# three digits, one space, a reason phrase without control characters that neither starts nor ends in white space
_STATUS_RE = re.compile(r'[0-9]{3} [^\s\x00-\x1f\x7f](?:[^\x00-\x1f\x7f]*[^\s\x00-\x1f\x7f])?\Z')
_TOKEN_RE = re.compile(r"^[!#$%&'*+\-.^_`|~0-9A-Za-z]+$")


def pep3333_problems(c, method='GET'):
    """Return a list of violations of PEP 3333 / RFC 7230 message framing for one recorded call."""
    p = []
    if c.escaped is not None:
        p.append(f'exception escaped to the server: {type(c.escaped).__name__}: {c.escaped}')
        return p
    if len(c.sr_calls) != 1:
        p.append(f'start_response called {len(c.sr_calls)} times')
        if not c.sr_calls:
            return p
    if not c.sr_before_first_chunk:
        p.append('start_response not called before the first chunk was yielded')
    if not isinstance(c.status, str) or not _STATUS_RE.match(c.status):
        p.append(f'malformed status line {c.status!r}')
    if type(c.headers) is not list:
        p.append(f'headers is {type(c.headers).__name__}, not list')
    else:
        if any(type(h) is tuple and len(h) == 2 and h[0] == SERVER_MARK for h in c.headers):
            p.append('the header list passed to start_response contains an entry that the server added to the list of an earlier response')
        for h in c.headers:
            if type(h) is not tuple or len(h) != 2:
                p.append(f'header entry {h!r} is not a 2-tuple')
                continue
            k, v = h
            if type(k) is not str or type(v) is not str:
                p.append(f'header {h!r}: name and value must be native str')
                continue
            if not _TOKEN_RE.match(k):
                p.append(f'header name {k!r} is not a token')
            try:
                v.encode('latin1')
            except UnicodeError:
                p.append(f'header value {v!r} not latin-1 encodable')
            if any(ch in v for ch in '\r\n\0'):
                p.append(f'header value {v!r} contains CR/LF/NUL')
            if k.lower() in ('connection', 'keep-alive', 'proxy-authenticate', 'proxy-authorization', 'te',
                             'trailers', 'transfer-encoding', 'upgrade'):
                p.append(f'hop-by-hop header {k!r}')
    for ch in c.chunks:
        if type(ch) is not bytes:
            p.append(f'body chunk of type {type(ch).__name__}')
            break
    if c.iter_error is not None:
        p.append(f'error while iterating the response: {c.iter_error!r}')
    code = c.code
    nobody = method == 'HEAD' or (code is not None and (100 <= code < 200 or code in (204, 304)))
    body = c.body
    if nobody and body:
        p.append(f'{len(body)} body bytes on a response that must not carry a body (method={method}, status={code})')
    if not nobody and type(c.headers) is list:
        cls = c.headers_all('Content-Length')
        if len(cls) > 1:
            p.append(f'{len(cls)} Content-Length headers')
        for v in cls:
            if not (isinstance(v, str) and v.isdigit()):
                p.append(f'Content-Length {v!r} is not a number')
            elif int(v) != len(body):
                p.append(f'Content-Length {v} but {len(body)} bytes returned')
    return p
