"""E-HIST — explicit-state breadth-first search over operation histories on the real objects.

A state is the history that reaches it.  ``build(hist)`` creates a fresh real object and replays the history
(live objects rarely copy safely, so nothing is forked); successors are ``hist + (op,)`` for every op of the finite
menu; ``canon(obj)`` is a hashable canonical rendering of the concrete state and deduplicates.  BFS, so the first
history that reaches a state (and any violation found there) is a shortest one.
"""


class Built(tuple):
    """what build() returns when the state key also needs something derived from the history (the reference model's
    state): a tuple with an extra attribute.  Two histories may only be merged when the real states AND the expected
    states agree - otherwise a no-op where an effect was due would be hidden by the deduplication."""
    mkey = None


class Search:
    def __init__(self, build, menu, canon, max_states=None):
        self.build = build          # build(hist) -> obj   (fresh object, history replayed; must be deterministic)
        self.menu = menu            # list of hashable ops
        self.canon = canon          # canon(obj) -> hashable
        self.max_states = max_states
        self.states = 0
        self.transitions = 0
        self.levels = []            # new states per depth
        self.capped = False
        self.seen = {}

    def run(self, depth, on_state, on_transition=None, first_ops=None):
        """on_state(hist, obj) is called once per NEW canonical state (including the initial one) and may return
        False to stop expanding below it.  on_transition(hist, op, key_before, key_after, obj_after) is called for
        every transition.  first_ops restricts the first operation (sharding)."""
        init = self.build(())
        k0 = self.canon(init)
        self.seen[k0] = ()
        self.states = 1
        on_state((), init)
        frontier = [((), k0)]
        for d in range(depth):
            nxt = []
            for hist, kb in frontier:
                ops = self.menu if (d > 0 or first_ops is None) else first_ops
                for op in ops:
                    h2 = hist + (op,)
                    obj = self.build(h2)
                    self.transitions += 1
                    ka = self.canon(obj)
                    if on_transition is not None:
                        on_transition(hist, op, kb, ka, obj)
                    if ka in self.seen:
                        continue
                    if self.max_states is not None and self.states >= self.max_states:
                        self.capped = True
                        continue
                    self.seen[ka] = h2
                    self.states += 1
                    if on_state(h2, obj) is not False:
                        nxt.append((h2, ka))
            self.levels.append(len(nxt))
            frontier = nxt
            if not frontier:
                break
        return self
