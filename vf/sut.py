"""Import of the system under test (ombott) from $OMBOTT_SRC (default /repo).

There is no build step: the checks import the working tree directly, so every run "rebuilds" from it.
"""
import os
import sys
import importlib

SRC = os.environ.get('OMBOTT_SRC', '/repo')


def _ensure_path():
    if not sys.path or sys.path[0] != SRC:
        while SRC in sys.path:
            sys.path.remove(SRC)
        sys.path.insert(0, SRC)


def purge():
    for k in [k for k in sys.modules if k == 'ombott' or k.startswith('ombott.')]:
        del sys.modules[k]


def load(fresh=False):
    """Return the ombott package; with fresh=True all module-level state is rebuilt."""
    _ensure_path()
    if fresh:
        purge()
    mod = importlib.import_module('ombott')
    f = os.path.realpath(mod.__file__)
    if not f.startswith(os.path.realpath(SRC) + os.sep):
        raise RuntimeError(f'ombott imported from {f}, expected under {SRC}')
    return mod


def sub(name):
    _ensure_path()
    return importlib.import_module('ombott.' + name)
