"""Import of the system under test (ombott) from $OMBOTT_SRC (default /repo).

There is no build step: the checks import the working tree directly, so every run "rebuilds" from it.  A meta-path
finder serves the ombott package from $OMBOTT_SRC with a loader that caches compiled code objects by source hash, so
that a fresh import (all module-level state rebuilt) costs milliseconds and never reads a stale byte-code file.
"""
import hashlib
import importlib
import importlib.abc
import importlib.machinery
import importlib.util
import os
import sys

SRC = os.environ.get('OMBOTT_SRC', '/repo')


class _CachingLoader(importlib.machinery.SourceFileLoader):
    _cache = {}

    def get_code(self, fullname):
        path = self.get_filename(fullname)
        data = self.get_data(path)
        key = (path, hashlib.sha1(data).digest())
        code = self._cache.get(key)
        if code is None:
            code = self._cache[key] = compile(data, path, 'exec', dont_inherit=True)
        return code


class _Finder(importlib.abc.MetaPathFinder):
    def find_spec(self, fullname, path=None, target=None):
        if fullname != 'ombott' and not fullname.startswith('ombott.'):
            return None
        base = os.path.join(SRC, *fullname.split('.'))
        if os.path.isdir(base):
            file = os.path.join(base, '__init__.py')
            if not os.path.exists(file):
                return None
            return importlib.util.spec_from_file_location(fullname, file, loader=_CachingLoader(fullname, file),
                                                          submodule_search_locations=[base])
        file = base + '.py'
        if not os.path.exists(file):
            return None
        return importlib.util.spec_from_file_location(fullname, file, loader=_CachingLoader(fullname, file))


def _ensure_path():
    if not any(isinstance(f, _Finder) for f in sys.meta_path):
        sys.meta_path.insert(0, _Finder())
    if not sys.path or sys.path[0] != SRC:
        while SRC in sys.path:
            sys.path.remove(SRC)
        sys.path.insert(0, SRC)


def purge():
    for k in [k for k in sys.modules if k == 'ombott' or k.startswith('ombott.')]:
        del sys.modules[k]


def load(fresh=False):
    """Return the ombott package; with fresh=True all module-level state is rebuilt."""
    _ensure_path()
    if fresh:
        purge()
    mod = importlib.import_module('ombott')
    f = os.path.realpath(mod.__file__)
    if not f.startswith(os.path.realpath(SRC) + os.sep):
        raise RuntimeError(f'ombott imported from {f}, expected under {SRC}')
    return mod


def sub(name):
    _ensure_path()
    return importlib.import_module('ombott.' + name)


# ---- module-level mutable state of ombott: snapshot at import, restore before an execution ------------------------
_snap = {}


def snapshot_globals():
    """Remember the content of every module-level list / dict / set of the loaded ombott modules."""
    import copy
    _snap.clear()
    for name, mod in list(sys.modules.items()):
        if name == 'ombott' or name.startswith('ombott.'):
            for k, v in vars(mod).items():
                if type(v) in (list, dict, set) and not k.startswith('__'):
                    try:
                        _snap[(name, k)] = (v, copy.copy(v))
                    except Exception:   # noqa
                        pass


def restore_globals():
    """Put the remembered content back in place (same container objects), e.g. to make lazily filled caches cold."""
    for (name, k), (obj, saved) in _snap.items():
        if type(obj) is list:
            obj[:] = saved
        elif type(obj) is dict:
            obj.clear()
            obj.update(saved)
        else:
            obj.clear()
            obj.update(saved)
