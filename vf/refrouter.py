"""Reference router: rule ASTs, their renderings in every syntax flavour, and the plain rule-by-rule matcher the
properties C01 / C11 / C19 speak about.  Nothing here imports ombott.

A rule is a tuple of atoms:
    ('L', text)                          literal text (may contain '/')
    ('W', name|None, kind, arg)          wildcard; kind in {None, 'int', 'float', 're', 'path', 'rex'}; arg = regex for 're';
                                         for 'rex' (selector filter) arg = (regex, selector | None): the wildcard takes what the
                                         regex matches; when the regex has groups the value is the first group that took part and
                                         its 1-based index is the selector - the rule only matches when it equals the rule's selector
"""
import re

SEP = '/'


def L(text):
    return ('L', text)


def W(name, kind=None, arg=None):
    return ('W', name, kind, arg)


# ---- rendering ---------------------------------------------------------------------------------------------------

def _render_w(atom, flavour, nxt):
    _, name, kind, arg = atom
    o, c = ('<', '>') if flavour.startswith('<') else ('{', '}')
    n = name or ''
    if flavour == ':':
        # `:name` — only an unfiltered wildcard that is followed by '/' or the end of the rule
        if kind is not None or not (nxt is None or (nxt[0] == 'L' and nxt[1].startswith('/'))):
            return None
        return ':' + n
    if kind is None:
        if name is None:
            return None                      # `<>` is a syntax error; anonymous plain wildcards only exist as ':'
        return o + n + c
    a = arg or ''
    sel = ''
    if kind == 'rex':
        a, k = arg
        sel = '[%d]' % k if k is not None else ''
        if flavour[1:] == 'colon':
            return None                      # the bottle style has no place for a selector
    style = flavour[1:]
    if style == 'colon':                     # <x:int>  <x:re:a+>
        if name is None:
            return None
        if kind in ('int', 'float', 'path'):
            return f'{o}{n}:{kind}{c}'
        if c in a:
            return None
        return f'{o}{n}:{kind}:{a}{c}'
    if style == 'dot':                       # <x.int()>  <x.re(a+)>
        if name is None:
            return None
        return f'{o}{n}.{kind}({a}){sel}{c}'
    if style == 'colonparen':                # {x:int()}  {x:re(a+)}  {:re(a+)}
        return f'{o}{n}:{kind}({a}){sel}{c}'
    if style == 'bare':                      # <re(a+)>  {int()}   (anonymous only)
        if name is not None:
            return None
        return f'{o}{kind}({a}){sel}{c}'
    raise AssertionError(flavour)


FLAVOURS = [':', '<colon', '{colon', '<dot', '{dot', '<colonparen', '{colonparen', '<bare', '{bare']


def render(rule, flavour):
    """Rule text in the given flavour, or None when the flavour cannot express the rule."""
    out = ['/']
    for i, atom in enumerate(rule):
        if atom[0] == 'L':
            if any(ch in atom[1] for ch in ':<{'):
                return None
            out.append(atom[1])
        else:
            nxt = rule[i + 1] if i + 1 < len(rule) else None
            fl = flavour
            if atom[2] is None and flavour not in (':',):
                fl = flavour[0] + 'colon'        # plain wildcards: <x> / {x}
            if atom[2] is not None and flavour == ':':
                fl = '{colonparen'
            s = _render_w(atom, fl, nxt)
            if s is None and atom[2] is None and atom[1] is None:
                s = _render_w(atom, ':', nxt)    # anonymous plain wildcard: only ':' can say it
            if s is None and atom[1] is None and atom[2] is not None:
                s = _render_w(atom, flavour[0] + 'colonparen' if flavour != ':' else '{colonparen', nxt)
            if s is None:
                return None
            out.append(s)
    return ''.join(out)


def renderings(rule):
    """All distinct rule texts of the rule, keyed by flavour."""
    out = {}
    for fl in FLAVOURS:
        s = render(rule, fl)
        if s is not None and s not in out.values():
            out[fl] = s
    return out


def default_text(rule):
    for fl in ('{colonparen', '<colonparen', ':'):
        s = render(rule, fl)
        if s is not None:
            return s
    raise ValueError(f'cannot render {rule!r}')


# ---- semantics ---------------------------------------------------------------------------------------------------

def pattern(rule):
    """The rule with every wildcard replaced by the marker (what decides 'same pattern' and priority)."""
    return ''.join(a[1] if a[0] == 'L' else ('\r' + (str(a[3][1]) if a[2] == 'rex' and a[3][1] is not None else '')) for a in rule)


def _mask_conv(rule, i):
    _, name, kind, arg = rule[i]
    if kind == 'int':
        return r'-?\d+', int
    if kind == 'float':
        return r'-?\d+(\.\d+)?', float
    if kind == 're':
        return arg, None
    if kind == 'path':
        nxt = rule[i + 1] if i + 1 < len(rule) else None
        tail = nxt[1] if nxt is not None and nxt[0] == 'L' else ''
        return ('.+(?=%s)' % re.escape(tail)) if tail else '.+$', None
    raise AssertionError(kind)


_re_cache = {}


def match(rule, path):
    """Plain left-to-right match of one rule against a path (already stripped of leading/trailing '/').
    Returns the list of (name, value) for every wildcard, or None."""
    pos = 0
    n = len(path)
    out = []
    for i, atom in enumerate(rule):
        if atom[0] == 'L':
            t = atom[1]
            if not path.startswith(t, pos):
                return None
            pos += len(t)
            continue
        if pos >= n:
            return None                      # a wildcard is only attempted while path characters remain
        if atom[2] is None:
            j = path.find(SEP, pos)
            if j < 0:
                j = n
            out.append((atom[1], path[pos:j]))
            pos = j
        elif atom[2] == 'rex':
            mask, want = atom[3]
            rx = _re_cache.get(mask)
            if rx is None:
                rx = _re_cache[mask] = re.compile(mask)
            m = rx.match(path[pos:])
            if not m:
                return None
            sel, v = None, m.group()
            for gi, g in enumerate(m.groups(), 1):
                if g is not None:
                    sel, v = gi, g
                    break
            if sel != want:
                return None
            out.append((atom[1], v))
            pos += m.end()
        else:
            mask, conv = _mask_conv(rule, i)
            rx = _re_cache.get(mask)
            if rx is None:
                rx = _re_cache[mask] = re.compile(mask)
            m = rx.match(path[pos:])
            if not m:
                return None
            v = m.group()
            out.append((atom[1], conv(v) if conv else v))
            pos += m.end()
    return out if pos == n else None


def prefer(pa, pb):
    """-1 when pattern pa has priority over pb (literal at the first difference), 1 for pb, 0 when equal."""
    for x, y in zip(pa, pb):
        if x != y:
            if y == '\r':
                return -1
            if x == '\r':
                return 1
            return 0           # two different literals: both cannot match one path
    return 0


def resolve(rules, path):
    """rules: list of rule ASTs.  Returns (index, params_dict, all_values) of the selected rule or None."""
    path = path.strip('/')
    best = None
    for idx, r in enumerate(rules):
        vals = match(r, path)
        if vals is None:
            continue
        if best is None or prefer(pattern(r), pattern(rules[best[0]])) < 0:
            best = (idx, vals)
    if best is None:
        return None
    idx, vals = best
    return idx, {k: v for k, v in vals if k is not None}, [v for _, v in vals]


# ---- generators -----------------------------------------------------------------------------------------------------

WILD_VALUES = ['', 'a', 'ab', '1', '-1', '1.5', 'a/b', 'ü', '\r', 'a\rb', 'aa', '12', 'a/b/by/c', '7/by/8', '5.', '.5',
               '\u0663']           # ARABIC-INDIC DIGIT THREE: a digit for \d, int() and float() alike


REX_VALUES = ['img', 'doc', 'raw', 'imgdoc', 'b-7', 'ab-12', 'do']


def instantiate(rule, values=WILD_VALUES):
    """Paths obtained by replacing every wildcard with each value (one value for all wildcards at a time, plus
    mixed pairs for two-wildcard rules)."""
    nw = sum(1 for a in rule if a[0] == 'W')
    if values is WILD_VALUES and any(a[0] == 'W' and a[2] == 'rex' for a in rule):
        values = WILD_VALUES + REX_VALUES
    out = []
    if nw == 0:
        out.append(''.join(a[1] for a in rule))
        return out
    combos = [(v,) * nw for v in values]
    if nw >= 2:
        combos += [(a, b) + (a,) * (nw - 2) for a in ('a', '1', 'ab') for b in ('1', 'b', '1.5') if a != b]
    ws = [a for a in rule if a[0] == 'W']
    if nw >= 2 and any(a[2] == 'rex' for a in ws):
        # selector filters: every selector value at the rex position, ordinary values elsewhere
        import itertools
        pools = [REX_VALUES if a[2] == 'rex' else ['a', '7', '1.5', 'x/y'] for a in ws]
        combos += list(itertools.product(*pools))
    for combo in combos:
        it = iter(combo)
        out.append(''.join(a[1] if a[0] == 'L' else next(it) for a in rule))
    return out


def perturb(path):
    out = set()
    for i in range(len(path)):
        out.add(path[:i] + path[i + 1:])
        out.add(path[:i] + path[i] + path[i:])
        out.add(path[:i] + ('x' if path[i] != 'x' else 'y') + path[i + 1:])
    out.add(path + '/')
    out.add('/' + path)
    out.add(path.replace('/', '//', 1))
    out.add(path + '/a')
    return out


def consume(rule, path):
    """Like match(), but also returns posmap: posmap[k] = number of path characters consumed once the first k
    characters of pattern(rule) are consumed (k = 0..len(pattern)).  Returns (values, posmap) or None."""
    pos = 0
    n = len(path)
    out = []
    posmap = [0]
    for i, atom in enumerate(rule):
        if atom[0] == 'L':
            t = atom[1]
            if not path.startswith(t, pos):
                return None
            for _ in t:
                pos += 1
                posmap.append(pos)
            continue
        if pos >= n:
            return None
        if atom[2] is None:
            j = path.find(SEP, pos)
            if j < 0:
                j = n
            out.append((atom[1], path[pos:j]))
            pos = j
        else:
            assert atom[2] != 'rex', 'consume() does not model selector filters'
            mask, conv = _mask_conv(rule, i)
            rx = _re_cache.get(mask)
            if rx is None:
                rx = _re_cache[mask] = re.compile(mask)
            m = rx.match(path[pos:])
            if not m:
                return None
            v = m.group()
            out.append((atom[1], conv(v) if conv else v))
            pos += m.end()
        posmap.append(pos)
    return (out, posmap) if pos == n else None
